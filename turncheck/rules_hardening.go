package main

// Rules written for round 8 (hardening commits that go one step too far): closed sets of who
// may end an allocation, set a deadline, drop a transaction result, re-arm the lifetime timer,
// stand between the server and the operator's AuthHandler, delete a client binding, rewrite a
// configured port range — and two small balance rules.

import (
	"fmt"
	"go/types"
	"strings"

	"golang.org/x/tools/go/ssa"
)

// ---- who may end an allocation (C04.10, C06.9)
func ruleWhoMayDeleteAllocation(c *Ctx, rule string) {
	w := c.W
	c.Rule(rule, "Manager.DeleteAllocation is called only where an allocation's own life ends: in a relay loop with the loop's own allocation, on the edge where reading/accepting on its relay socket failed; from the function the lifetime timer runs; from a request handler of package server with the request's own 5-tuple (Refresh with lifetime 0); and from the server's teardown of a client's stream connection (closed set of call sites, classified by what is deleted and under which condition)", 4)
	del := w.Func("allocation", "Manager", "DeleteAllocation")
	afterFunc := timeAfterFunc(w)
	srv := w.tpkg("server").Path()
	root := w.tpkg("turn").Path()
	// runsFromTimer: fn is, or is only ever called from, a function handed to time.AfterFunc
	var runsFromTimer func(fn *ssa.Function, d int) bool
	runsFromTimer = func(fn *ssa.Function, d int) bool {
		if d > 4 {
			return false
		}
		for _, mc := range w.Closures[fn] {
			for _, r := range *mc.Referrers() {
				if call, ok := r.(*ssa.Call); ok && call.Call.StaticCallee() == afterFunc {
					return true
				}
			}
		}
		cs := w.callsTo(fn)
		if len(cs) == 0 {
			return false
		}
		for _, c2 := range cs {
			if !runsFromTimer(c2.Parent(), d+1) {
				return false
			}
		}
		return true
	}
	// onlyRefresh: top is the Refresh handler or a helper of it that no other handler uses
	handlers := w.authedHandlers(nil, rule)
	onlyRefresh := func(top *ssa.Function) bool {
		in := func(h *ssa.Function) bool {
			if h == nil {
				return false
			}
			for _, f := range w.helpersOf(h) {
				if f == top {
					return true
				}
			}
			return false
		}
		if !in(handlers["MethodRefresh"]) {
			return false
		}
		for m, h := range handlers {
			if m != "MethodRefresh" && in(h) {
				return false
			}
		}
		return true
	}
	for _, cs := range w.callsTo(del) {
		fn := cs.Parent()
		top := fn
		for top.Parent() != nil {
			top = top.Parent()
		}
		c.Anchor(rule, fname(top))
		in, _ := cs.(ssa.Instruction)
		args := cs.Common().Args
		arg := args[len(args)-1]
		// (1) a relay loop ending its own allocation on its own socket's failure
		ownTuple := false
		if b, f, ok := fieldLoad(w.resolveLoad(arg)); ok && f.Name() == "fiveTuple" {
			if p := rawParamOf(b, fn); p != nil && paramIndex(p) == 0 {
				ownTuple = true
			}
		}
		readFailed := false
		for _, f := range w.factsAt(in) {
			if w.factNilCall(f, false, func(rc *ssa.Call) bool {
				return rc.Call.IsInvoke() && (rc.Call.Method.Name() == "ReadFrom" || rc.Call.Method.Name() == "Accept") && rc.Parent() == fn
			}) {
				readFailed = true
			}
		}
		// ... or its client's socket is closed (net.ErrClosed): nothing can reach the client any more
		clientClosed := false
		for _, f := range w.factsAt(in) {
			if f.Op != "true" || !f.Truth {
				continue
			}
			call, _ := callOf(f.X)
			if call == nil {
				continue
			}
			isErrClosed := func(c2 *ssa.Call) bool {
				if stdCallee(&c2.Call) != "errors.Is" || len(c2.Call.Args) != 2 {
					return false
				}
				ld, ok := stripIface(w.resolveLoad(c2.Call.Args[1])).(*ssa.UnOp)
				if !ok {
					return false
				}
				g, isG := ld.X.(*ssa.Global)
				return isG && g.Name() == "ErrClosed" && g.Pkg != nil && g.Pkg.Pkg.Path() == "net"
			}
			if isErrClosed(call) {
				clientClosed = true
			} else if h := call.Call.StaticCallee(); h != nil && w.IsMod[h] && len(h.Blocks) == 1 {
				// a one-line helper: return errors.Is(err, net.ErrClosed)
				if rets := returnsOf(h); len(rets) == 1 && len(rets[0].Results) == 1 {
					if c3, isC := rets[0].Results[0].(*ssa.Call); isC && isErrClosed(c3) {
						clientClosed = true
					}
				}
			}
		}
		switch {
		case ownTuple && clientClosed:
			c.OK(rule, fname(fn), "DeleteAllocation", w.instrPos(in), "the relay loop's own allocation, when its client's socket is closed (net.ErrClosed): the connection the allocation belongs to is gone")
		case ownTuple && readFailed:
			c.OK(rule, fname(fn), "DeleteAllocation", w.instrPos(in), "the relay loop's own allocation, on the edge where its relay socket's read/accept failed")
		case runsFromTimer(fn, 0):
			c.OK(rule, fname(fn), "DeleteAllocation", w.instrPos(in), "run by a timer (the allocation's lifetime; which allocation and when is C06.4's business)")
		case fnPkgPath(fn) == srv:
			if !onlyRefresh(top) {
				c.Bad(rule, fname(fn), "DeleteAllocation", w.instrPos(in), "a request handler other than Refresh deletes an allocation: among the requests only a Refresh with lifetime 0 ends an allocation — here one is released as a side effect of answering another request (e.g. when a response could not be written, which for a retransmitted Allocate removes the allocation the first response already reported, long before its LIFETIME)")
			} else if ok, _ := w.requestTupleAny(arg); ok {
				c.OK(rule, fname(fn), "DeleteAllocation", w.instrPos(in), "a request handler deleting the allocation of the request's own 5-tuple (Refresh 0; the guard is C06.3's business)")
			} else {
				c.Bad(rule, fname(fn), "DeleteAllocation", w.instrPos(in), "a request handler deletes an allocation that is not the one on the request's own 5-tuple")
			}
		case fnPkgPath(fn) == root:
			c.OK(rule, fname(fn), "DeleteAllocation", w.instrPos(in), "the server's teardown of a client's stream connection (which tuple: C04.2)")
		case ownTuple:
			c.Bad(rule, fname(fn), "DeleteAllocation", w.instrPos(in), "the relay loop ends its allocation on something other than a failure of its own relay socket (e.g. one failed write towards the client: for UDP that socket is the shared listening socket, and ENOBUFS/EPERM/EMSGSIZE are transient): a live allocation, with its permissions and bindings, is gone long before the LIFETIME it reported")
		default:
			c.Bad(rule, fname(fn), "DeleteAllocation", w.instrPos(in), "an allocation is deleted from "+fname(top)+": only its own end of life (relay socket failure, lifetime expiry, Refresh with lifetime 0, teardown of the client's connection) may remove an allocation — here a request on one 5-tuple, or a quota, ends another 5-tuple's live allocation")
		}
	}
}

// requestTupleAny: v is the 5-tuple of the request some handler of package server is serving
// (built from req.SrcAddr / req.Conn.LocalAddr(), possibly through helpers).
func (w *World) requestTupleAny(v ssa.Value) (bool, string) {
	in, ok := v.(ssa.Instruction)
	var fn *ssa.Function
	if ok {
		fn = in.Parent()
	} else if p, isP := v.(*ssa.Parameter); isP {
		fn = p.Parent()
	}
	if fn == nil {
		return false, ""
	}
	top := fn
	for top.Parent() != nil {
		top = top.Parent()
	}
	if ok2, why := w.requestTuple(v, top); ok2 {
		return true, why
	}
	// through the single call site of a helper
	if p := rawParamOf(v, fn); p != nil {
		if site := w.singleSiteCI(fn); site != nil && paramIndex(p) < len(site.Common().Args) {
			return w.requestTupleAny(site.Common().Args[paramIndex(p)])
		}
	}
	return false, ""
}

// ---- a refused ConnectionBind changes nothing (C16.11)
func ruleBindRefusalEffectFree(c *Ctx, rule string) {
	w := c.W
	c.Rule(rule, "Manager.GetTCPConnection (helpers included) neither removes nor closes a peer connection: a ConnectionBind that is refused — wrong user, unknown id, already bound — leaves the pending connection to its owner and its bind timer", 1)
	fn := w.Func("allocation", "Manager", "GetTCPConnection")
	c.Anchor(rule, "GetTCPConnection")
	bad := ""
	w.eachInstrDeep(fn, func(in ssa.Instruction) {
		call, ok := in.(*ssa.Call)
		if !ok {
			return
		}
		name := ""
		if call.Call.IsInvoke() {
			name = call.Call.Method.Name()
		} else if h := call.Call.StaticCallee(); h != nil {
			name = h.Name()
		} else if b, isB := call.Call.Value.(*ssa.Builtin); isB && b.Name() == "delete" {
			name = "delete"
		}
		switch name {
		case "removeTCPConnection", "RemoveTCPConnection", "Close", "delete":
			bad = name + " at " + w.instrPos(in)
		}
	})
	if bad == "" {
		c.OK(rule, fname(fn), "no removal", w.pos(fn.Pos()), "looks up, tests the user, claims the single use, stops the bind timer — nothing else")
	} else {
		c.Bad(rule, fname(fn), "no removal", w.pos(fn.Pos()), "GetTCPConnection destroys a peer connection ("+bad+"): a ConnectionBind by a user who does not own the allocation removes the owner's pending connection, whose own bind inside the 30 s window is then answered 400")
	}
}

// ---- deadlines (C09.12, C16.12, C05.11)
func ruleDeadlineSites(c *Ctx, rule string) {
	w := c.W
	c.Rule(rule, "the server side (packages turn/server.go, internal/server, internal/allocation, internal/proto) sets a deadline on a connection only in STUNConn's three forwarding methods and in removeTCPConnection (which expires the connection it is about to close): no other Set(Read|Write)Deadline call exists, so no deadline armed for one step is still armed when the connection carries the next frame or is handed on to a relay (closed set of call sites)", 4)
	allowed := map[string]string{
		"SetDeadline":         "STUNConn forwards the caller's deadline",
		"SetReadDeadline":     "STUNConn forwards the caller's deadline",
		"SetWriteDeadline":    "STUNConn forwards the caller's deadline",
		"removeTCPConnection": "expires the connection it is about to close",
	}
	pkgs := map[string]bool{w.tpkg("server").Path(): true, w.tpkg("allocation").Path(): true, w.tpkg("proto").Path(): true}
	rootPath := w.tpkg("turn").Path()
	for _, fn := range w.ModFns {
		pp := fnPkgPath(fn)
		if !pkgs[pp] && pp != rootPath {
			continue
		}
		root := w.bodyRoot(fn)
		if pp == rootPath {
			// the root package holds client and server: server side = methods of Server and the
			// relay address generators
			r := root.Signature.Recv()
			if r == nil || !(strings.Contains(r.Type().String(), ".Server") || strings.Contains(r.Type().String(), "RelayAddressGenerator")) {
				continue
			}
		}
		w.eachInstr(fn, func(in ssa.Instruction) {
			call, ok := in.(*ssa.Call)
			if !ok {
				return
			}
			name := ""
			if call.Call.IsInvoke() {
				name = call.Call.Method.Name()
			} else if h := call.Call.StaticCallee(); h != nil {
				name = h.Name()
			}
			switch name {
			case "SetDeadline", "SetReadDeadline", "SetWriteDeadline":
			default:
				return
			}
			c.Anchor(rule, fname(root))
			if why, ok := allowed[root.Name()]; ok && (root.Name() == "removeTCPConnection" || (root.Signature.Recv() != nil && strings.Contains(root.Signature.Recv().Type().String(), "STUNConn"))) {
				c.OK(rule, fname(fn), name, w.instrPos(in), why)
				return
			}
			// a deadline armed for one step and lifted again before the function goes on: the
			// call lifts one (zero time), or every path from it to a return passes such a call of
			// the same method on the same connection (the path on which arming itself failed
			// excepted)
			args := call.Call.Args
			if isZeroTime(args[len(args)-1]) {
				c.OK(rule, fname(fn), name, w.instrPos(in), "lifts a deadline (zero time)")
				return
			}
			if armedThenLifted(w, call, name) {
				c.OK(rule, fname(fn), name, w.instrPos(in), "armed for one step: every path from here to a return lifts it again (zero time) on the same connection")
				return
			}
			c.Bad(rule, fname(fn), name, w.instrPos(in), "a deadline is set on a connection in "+fname(root)+": a deadline is absolute and stays armed after the step it was meant for — the next frame read on the connection, or the relay the connection is handed to, fails with a timeout although nothing is wrong; on a stream a write cut short by a deadline leaves a partial frame behind that splices into the next one")
		})
	}
}

// ---- the transaction result is handed over, not dropped (C12.12, C18.wr)
func ruleResultHandOff(c *Ctx, rule string) {
	w := c.W
	c.Rule(rule, "Transaction.WriteResult refuses only when the transaction has no result channel: the send of the result is not one case of a select with a default or a timer (closed refusal set) — the completer has already stopped the timer and removed the transaction, so a dropped result is a transaction nobody will ever end", 1)
	fn := w.Func("client", "Transaction", "WriteResult")
	ruleRefusals(c, rule, fn, "refusals", nil,
		func(in ssa.Instruction) bool {
			r, ok := in.(*ssa.Return)
			if !ok || len(r.Results) != 1 {
				return false
			}
			k, isK := w.resolveLoad(r.Results[0]).(*ssa.Const)
			return isK && k.Value != nil && k.Value.String() == "true"
		},
		func(e refusalEdge) string {
			for _, f := range e.facts {
				if v, isNil, ok := nilFact(f); ok && isNil {
					if _, fl, isL := fieldLoad(w.resolveLoad(v)); isL && fl.Name() == "resultCh" {
						return "the transaction has no result channel"
					}
				}
			}
			// a non-blocking send into a channel that has room for the one result a
			// transaction ever gets (the completer removed it from the table first, C12.2):
			// the default case then means "already has its result"
			if resultChBuffered(w) {
				for _, f := range e.own {
					for _, side := range []ssa.Value{f.X, f.Y} {
						if ex, ok := side.(*ssa.Extract); ok {
							if sel, isSel := ex.Tuple.(*ssa.Select); isSel && !sel.Blocking {
								return "non-blocking send into a result channel with room for the transaction's one result"
							}
						}
					}
				}
			}
			return ""
		}, "the result is dropped when the requester is not yet (or no longer) receiving: handleSTUNMessage has by then stopped the retransmission timer and deleted the transaction, so PerformTransaction waits for ever with everything its caller holds")
}

// ---- a slot taken is given back on every path (C09.13)
func ruleSemaphoreReleased(c *Ctx, rule string) {
	w := c.W
	c.Rule(rule, "a function literal that gives back a slot of a counting semaphore (a receive from a buffered channel local to the function that starts it, which that function sends to) does so on every path to its returns, or defers it: a connection that ends early (a failed TLS handshake) does not keep its slot for the life of the server", 0)
	chanOf := func(v ssa.Value) *ssa.MakeChan {
		mk, _ := stripIface(w.resolveLoad(v)).(*ssa.MakeChan)
		return mk
	}
	for _, fn := range w.ModFns {
		if fn.Parent() == nil {
			continue
		}
		// the semaphores this function literal gives slots back to
		sems := map[*ssa.MakeChan]bool{}
		scan := func(g *ssa.Function) {
			w.eachInstr(g, func(in ssa.Instruction) {
				u, ok := in.(*ssa.UnOp)
				if !ok || u.Op.String() != "<-" {
					return
				}
				mk := chanOf(u.X)
				if mk == nil || mk.Parent() == g || mk.Parent() == fn {
					return
				}
				if k, isK := constInt(mk.Size); !isK || k < 1 {
					return
				}
				// a counting semaphore carries no data: empty element type, received value unused
				if st, isS := mk.Type().Underlying().(*types.Chan).Elem().Underlying().(*types.Struct); !isS || st.NumFields() != 0 {
					return
				}
				if u.Referrers() != nil {
					for _, r := range *u.Referrers() {
						if _, isDbg := r.(*ssa.DebugRef); !isDbg {
							return
						}
					}
				}
				sems[mk] = true
			})
		}
		scan(fn)
		for _, a := range fn.AnonFuncs {
			scan(a)
		}
		for mk := range sems {
			// the creator acquires by sending
			acquires := false
			w.eachInstr(mk.Parent(), func(in ssa.Instruction) {
				switch u := in.(type) {
				case *ssa.Send:
					if chanOf(u.Chan) == mk {
						acquires = true
					}
				case *ssa.Select:
					for _, st := range u.States {
						if st.Dir == types.SendOnly && chanOf(st.Chan) == mk {
							acquires = true
						}
					}
				}
			})
			if !acquires {
				continue
			}
			isRelease := func(in ssa.Instruction) bool {
				u, ok := in.(*ssa.UnOp)
				return ok && u.Op.String() == "<-" && chanOf(u.X) == mk
			}
			own, deferred := false, false
			w.eachInstr(fn, func(in ssa.Instruction) {
				if isRelease(in) {
					own = true
				}
				if d, isD := in.(*ssa.Defer); isD {
					if mc, isMC := d.Call.Value.(*ssa.MakeClosure); isMC {
						if body, _ := mc.Fn.(*ssa.Function); body != nil {
							w.eachInstr(body, func(i2 ssa.Instruction) {
								if isRelease(i2) {
									deferred = true
								}
							})
						}
					}
				}
			})
			if !own && !deferred {
				continue
			}
			// slots given back one per item inside a loop of the goroutine are another kind of
			// accounting (one slot per queued request, not one per goroutine): not this rule's shape
			perItem := false
			w.eachInstr(fn, func(in ssa.Instruction) {
				if isRelease(in) && instrReaches(in, in) {
					perItem = true
				}
			})
			if perItem {
				continue
			}
			c.Anchor(rule, fname(fn))
			if deferred {
				c.OK(rule, fname(fn), "slot released", w.pos(fn.Pos()), "released by a deferred function")
				continue
			}
			if ok, trail := mustPassBefore(fn.Blocks[0], isRelease, func(*ssa.BasicBlock) bool { return false }); ok {
				c.OK(rule, fname(fn), "slot released", w.pos(fn.Pos()), "every path to a return gives the slot back")
			} else {
				c.Bad(rule, fname(fn), "slot released", w.pos(fn.Pos()), "a path of this goroutine returns without giving back the slot it holds ("+strings.Join(trail, "; ")+"): every connection that ends that way (e.g. a failed TLS handshake) leaks a slot, and once they are gone every new client is refused although nothing is open — unauthenticated traffic has switched the listener off for everyone")
			}
		}
	}
}

// ---- the allocation's lifetime timer is re-armed by Refresh alone (C15.11, C06.10)
func ruleLifetimeTimerResetByRefresh(c *Ctx, rule string) {
	w := c.W
	c.Rule(rule, "Allocation.lifetimeTimer is Reset only in Allocation.Refresh: nothing re-arms the timer of an allocation that may already have been closed (a Reset after Close leaves a timer that outlives its allocation and later deletes whatever allocation then holds the 5-tuple)", 1)
	fld := w.Field("allocation", "Allocation", "lifetimeTimer")
	n := 0
	for _, fn := range w.ModFns {
		w.eachInstr(fn, func(in ssa.Instruction) {
			call, ok := in.(*ssa.Call)
			if !ok || call.Call.StaticCallee() == nil || call.Call.StaticCallee().String() != "(*time.Timer).Reset" {
				return
			}
			if _, f, isL := fieldLoad(stripIface(call.Call.Args[0])); !isL || f != fld {
				if _, f2, isL2 := fieldLoad(w.resolveLoad(call.Call.Args[0])); !isL2 || f2 != fld {
					return
				}
			}
			n++
			root := w.bodyRoot(fn)
			c.Anchor(rule, fname(root))
			if root.Name() == "Refresh" && root.Signature.Recv() != nil {
				c.OK(rule, fname(fn), "Reset", w.instrPos(in), "Refresh restarts the lifetime (C06.3/C15.7 cover its guards)")
			} else {
				c.Bad(rule, fname(fn), "Reset", w.instrPos(in), "the allocation's lifetime timer is re-armed in "+fname(root)+": if the allocation has ended in the meantime (expiry of a short lifetime, Manager.Close or a delete during a slow OnAllocationCreated callback) Close has already stopped the timer, and this Reset arms it again on a closed, unregistered allocation — a timer that outlives its allocation and, when it fires, deletes whichever allocation holds that 5-tuple then")
			}
		})
	}
	if n == 0 {
		c.Anchor(rule, "-")
		c.Bad(rule, "-", "Reset", "-", "no Reset of Allocation.lifetimeTimer found: anchor gone")
	}
}

// ---- the handler consulted is the operator's (C17.7, C03.9)
func ruleAuthHandlerIsOperators(c *Ctx, rule string) {
	w := c.W
	c.Rule(rule, "the AuthHandler a Server consults is the one the operator configured: Server.authHandler is assigned ServerConfig.AuthHandler itself, not a function that stands in front of it (a remembered verdict outlives the credential's expiry and the operator's revocation)", 1)
	fld := w.Field("turn", "Server", "authHandler")
	n := 0
	for _, fn := range w.ModFns {
		w.eachInstr(fn, func(in ssa.Instruction) {
			st, ok := in.(*ssa.Store)
			if !ok {
				return
			}
			fa, ok := st.Addr.(*ssa.FieldAddr)
			if !ok || fieldOf(fa) != fld {
				return
			}
			n++
			c.Anchor(rule, fname(fn))
			v := stripIface(w.resolveLoad(st.Val))
			if _, f, isL := fieldLoad(v); isL && f.Name() == "AuthHandler" {
				c.OK(rule, fname(fn), "authHandler", w.instrPos(in), "the configured handler itself")
			} else {
				c.Bad(rule, fname(fn), "authHandler", w.instrPos(in), "Server.authHandler is "+w.desc(v)+", not ServerConfig.AuthHandler: whatever stands between the requests and the operator's handler (a verdict cache, a rate limiter answering from memory) keeps accepting a time-windowed credential after its expiry and a user after the operator revoked it")
			}
		})
	}
	if n == 0 {
		c.Anchor(rule, "-")
		c.Bad(rule, "-", "authHandler", "-", "Server.authHandler is never assigned: anchor gone")
	}
}

// ---- a map field that is written is never set to nil (C18.nm)
func ruleNoNilMapField(c *Ctx, rule string) {
	w := c.W
	c.Rule(rule, "no struct field of map type that some function writes with m[k] = v — without first making the map where it is nil — is ever assigned nil: a request that was in flight when the table was taken away would panic on the assignment (reading a nil map is harmless, writing is not)", 0)
	// fields that some function inserts into without making the map first where it is nil
	// (`if x.m == nil { x.m = make(...) }` in front of the insertion is the lazy-init idiom:
	// such a field may be nil between uses)
	written := map[*types.Var]bool{}
	for _, fn := range w.ModFns {
		w.eachInstr(fn, func(in ssa.Instruction) {
			mu, ok := in.(*ssa.MapUpdate)
			if !ok {
				return
			}
			_, f, isL := fieldLoad(w.resolveLoad(mu.Map))
			if !isL {
				if _, f, isL = fieldLoad(stripIface(mu.Map)); !isL {
					return
				}
			}
			lazy := false
			for _, b := range fn.Blocks {
				iff, isIf := b.Instrs[len(b.Instrs)-1].(*ssa.If)
				if !isIf || !(b == mu.Block() || b.Dominates(mu.Block())) {
					continue
				}
				for i, sb := range b.Succs {
					for _, fc := range normCond(iff.Cond, i == 0) {
						v, isNil, isNF := nilFact(fc)
						if !isNF || !isNil {
							continue
						}
						if _, f2, ok2 := fieldLoad(stripIface(v)); !ok2 || f2 != f {
							continue
						}
						for _, i2 := range sb.Instrs {
							if st, isSt := i2.(*ssa.Store); isSt {
								if fa, isFA := st.Addr.(*ssa.FieldAddr); isFA && fieldOf(fa) == f {
									if _, isMk := st.Val.(*ssa.MakeMap); isMk {
										lazy = true
									}
								}
							}
						}
					}
				}
			}
			if !lazy {
				written[f] = true
			}
		})
	}
	for _, fn := range w.ModFns {
		w.eachInstr(fn, func(in ssa.Instruction) {
			st, ok := in.(*ssa.Store)
			if !ok || !isNilConst(st.Val) {
				return
			}
			fa, ok := st.Addr.(*ssa.FieldAddr)
			if !ok || !written[fieldOf(fa)] {
				return
			}
			if _, isMap := fieldOf(fa).Type().Underlying().(*types.Map); !isMap {
				return
			}
			c.Anchor(rule, fname(fn))
			c.Bad(rule, fname(fn), fieldOf(fa).Name(), w.instrPos(in), "the map field "+fieldOf(fa).Name()+" is set to nil here while other functions insert into it: a request still being handled after this point (a client connection accepted before Close) panics with \"assignment to entry in nil map\" in its own goroutine and takes the process down")
		})
	}
}

// ---- client bindings are not deleted (C13.13)
func ruleNoBindingDeletion(c *Ctx, rule string) {
	w := c.W
	c.Rule(rule, "nothing removes an entry of the client's binding table (bindingManager.deleteByAddr / deleteByNumber have no caller): the server keeps a binding for as long as it is refreshed, so a local entry that disappears leaves inbound ChannelData on its channel unresolvable and gives the peer a second channel number on the next write, which the server answers 400", 0)
	for _, name := range []string{"deleteByAddr", "deleteByNumber"} {
		h := w.FuncOpt("client", "bindingManager", name)
		if h == nil {
			continue
		}
		for _, cs := range w.callsTo(h) {
			in, _ := cs.(ssa.Instruction)
			c.Anchor(rule, fname(cs.Parent()))
			c.Bad(rule, fname(cs.Parent()), name, w.instrPos(in), "a binding is removed from the client's table while the server may still hold it (idleness measured on writes says nothing about a peer we only receive from): its ChannelData is dropped as \"unknown channel\", and the next WriteTo binds the peer to a second number — the server refuses that with 400 and the relayed socket closes")
		}
	}
}

// ---- Allocate: the existing-allocation lookup comes first (C19.9)
func ruleAllocateLookupFirst(c *Ctx, rule string) {
	w := c.W
	c.Rule(rule, "in the Allocate handler the operator's QuotaHandler is consulted only after the lookup of an existing allocation on the request's 5-tuple: a quota refusal cannot stand in front of the replay of a retransmitted Allocate or of the 437 for a different one, and the quota is not charged for requests that create nothing", 1)
	h := w.Func("server", "", "handleAllocateRequest")
	get := w.Func("allocation", "Manager", "GetAllocation")
	c.Anchor(rule, "handleAllocateRequest")
	// positions in the handler: a call that is, or whose callee (deep) contains, the thing
	pos := func(pred func(*ssa.Call) bool) []*ssa.Call {
		var out []*ssa.Call
		w.eachInstr(h, func(in ssa.Instruction) {
			call, ok := in.(*ssa.Call)
			if !ok {
				return
			}
			if pred(call) {
				out = append(out, call)
				return
			}
			if g := call.Call.StaticCallee(); g != nil && w.IsMod[g] && len(g.Blocks) > 0 && fnPkgPath(g) == fnPkgPath(h) {
				found := false
				w.eachInstrDeep(g, func(i2 ssa.Instruction) {
					if c2, ok2 := i2.(*ssa.Call); ok2 && pred(c2) {
						found = true
					}
				})
				if found {
					out = append(out, call)
				}
			}
		})
		return out
	}
	lookups := pos(func(c2 *ssa.Call) bool { return c2.Call.StaticCallee() == get })
	quotas := pos(func(c2 *ssa.Call) bool {
		if c2.Call.StaticCallee() != nil || c2.Call.IsInvoke() {
			return false
		}
		_, f, ok := fieldLoad(w.resolveLoad(c2.Call.Value))
		return ok && f.Name() == "QuotaHandler"
	})
	if len(lookups) == 0 {
		c.Bad(rule, fname(h), "lookup first", w.pos(h.Pos()), "no GetAllocation lookup in the Allocate handler: anchor gone")
		return
	}
	bad := ""
	for _, q := range quotas {
		dom := false
		for _, l := range lookups {
			if l != q && instrDominates(l, q) {
				dom = true
			}
		}
		if !dom {
			bad = w.instrPos(q)
		}
	}
	if bad != "" {
		c.Bad(rule, fname(h), "lookup first", w.pos(h.Pos()), "the QuotaHandler is consulted at "+bad+" before the 5-tuple has been looked up: a retransmitted Allocate from the client whose own allocation filled the quota gets 486 instead of the same success again, a different Allocate on the busy 5-tuple gets 486 instead of 437, and a counting handler is charged for requests that allocate nothing")
	} else {
		c.OK(rule, fname(h), "lookup first", w.pos(h.Pos()), "the quota is consulted only after the lookup of an existing allocation")
	}
}

// ---- Validate does not rewrite the configured range (C20.8)
func ruleValidateKeepsRange(c *Ctx, rule string) {
	w := c.W
	c.Rule(rule, "no function assigns MinPort or MaxPort of a relay address generator: Validate checks the configured range (and defaults MaxRetries), it does not move one bound — a clamp of one bound can invert a valid range, and the uint16 span then wraps", 0)
	for _, fn := range w.ModFns {
		w.eachInstr(fn, func(in ssa.Instruction) {
			st, ok := in.(*ssa.Store)
			if !ok {
				return
			}
			fa, ok := st.Addr.(*ssa.FieldAddr)
			if !ok {
				return
			}
			f := fieldOf(fa)
			if f.Name() != "MinPort" && f.Name() != "MaxPort" {
				return
			}
			if n := namedOf(fa.X.Type()); n == nil || !strings.Contains(n.Obj().Name(), "RelayAddressGenerator") {
				return
			}
			// composite literals initialise a fresh object: stores into a local Alloc
			if _, isAl := fa.X.(*ssa.Alloc); isAl {
				return
			}
			c.Anchor(rule, fname(fn))
			if rangeStaysValid(w, st, fa, f.Name()) {
				c.OK(rule, fname(fn), f.Name(), w.instrPos(in), f.Name()+" is tightened under conditions that keep MinPort ≤ MaxPort: the new bound is provably on the right side of the other one where it is stored")
				return
			}
			c.Bad(rule, fname(fn), f.Name(), w.instrPos(in), f.Name()+" of a configured port range is overwritten: adjusting one bound after the bounds were checked can leave MinPort > MaxPort (a valid range wholly below the new bound), the uint16 span wraps and ports are drawn from outside [MinPort, MaxPort] — or the span becomes 0 and Intn panics instead of failing cleanly")
		})
	}
}

// ---- ChannelBind: refused only for the reasons of the property (C08.10)
func ruleChannelBindRefusals(c *Ctx, rule string) {
	w := c.W
	c.Rule(rule, "handleChannelBindRequest reaches Allocation.AddChannelBind unless authentication failed, the 5-tuple has no allocation of that user, an attribute is missing or malformed, the channel number is out of range, or the permission handler refuses the peer (closed refusal set): whether a request is a new binding, a refresh or a conflict is AddChannelBind's decision, so nothing in front of it can answer a refresh or a conflict with something else", 1)
	fn := w.Func("server", "", "handleChannelBindRequest")
	ruleRefusals(c, rule, fn, "refusals", nil,
		func(in ssa.Instruction) bool {
			call, ok := in.(*ssa.Call)
			return ok && call.Call.StaticCallee() != nil && call.Call.StaticCallee().Name() == "AddChannelBind"
		},
		func(e refusalEdge) string {
			for _, f := range e.facts {
				if f.Op == "true" && !f.Truth {
					if fc, fi := callOf(f.X); fc != nil && fi == 1 && w.calleeOrWrapper("authenticateRequest")(fc) {
						return "not authenticated"
					}
					if vc, _ := callOf(f.X); vc != nil && calleeNamed("Valid")(vc) {
						return "channel number out of range"
					}
				}
				if w.factNilCall(f, true, w.calleeOrWrapper("GetAllocationForUserID", "GetAllocation")) {
					return "no allocation of this user on the 5-tuple"
				}
				if w.factNilCall(f, false, w.calleeOrWrapper("GetFrom", "GrantPermission")) {
					return "attribute missing/malformed or peer refused by the permission handler"
				}
				if f.Op == "true" && !f.Truth {
					if vc, _ := callOf(f.X); vc != nil && calleeNamed("ipMatchesFamily")(vc) {
						return "peer address of another family than the relay"
					}
				}
			}
			// a capacity refusal for a request that would create a binding: neither the number
			// nor the peer is bound, so it is neither a refresh nor a conflict
			numFree, peerFree := false, false
			for _, f := range e.facts {
				if w.factNilCall(f, true, w.calleeOrWrapper("GetChannelByNumber")) {
					numFree = true
				}
				if w.factNilCall(f, true, w.calleeOrWrapper("GetChannelByAddr")) {
					peerFree = true
				}
			}
			if numFree && peerFree {
				return "refused for capacity, and only a request that would create a new binding (neither the number nor the peer is bound)"
			}
			return ""
		}, "a ChannelBind that repeats an existing binding is not refreshed, and a conflicting one is not answered 400, because something in front of AddChannelBind answers first (a quota must count only what would be new)")
}

// isZeroTime: v is time.Time{} — the load of a local that is never written.
func isZeroTime(v ssa.Value) bool {
	if k, isK := v.(*ssa.Const); isK {
		return k.Value == nil && k.Type().String() == "time.Time"
	}
	u, ok := v.(*ssa.UnOp)
	if !ok || u.X == nil {
		return false
	}
	al, ok := u.X.(*ssa.Alloc)
	if !ok || al.Referrers() == nil {
		return false
	}
	for _, r := range *al.Referrers() {
		switch r.(type) {
		case *ssa.UnOp, *ssa.DebugRef:
		default:
			return false
		}
	}
	return true
}

// armedThenLifted: on every path from the arming call to a return of its function a call of
// the same deadline method with the zero time on the same receiver is passed; returns on which
// the arming call itself is known to have failed are exempt.
func armedThenLifted(w *World, arm *ssa.Call, method string) bool {
	recv := func(c *ssa.Call) ssa.Value {
		if c.Call.IsInvoke() {
			return c.Call.Value
		}
		if len(c.Call.Args) > 0 {
			return c.Call.Args[0]
		}
		return nil
	}
	isLift := func(in ssa.Instruction) bool {
		c2, ok := in.(*ssa.Call)
		if !ok || c2 == arm {
			return false
		}
		n := ""
		if c2.Call.IsInvoke() {
			n = c2.Call.Method.Name()
		} else if h := c2.Call.StaticCallee(); h != nil {
			n = h.Name()
		}
		if n != method && n != "SetDeadline" {
			return false
		}
		a := c2.Call.Args
		if len(a) == 0 || !isZeroTime(a[len(a)-1]) {
			return false
		}
		r1, r2 := recv(arm), recv(c2)
		return r1 != nil && r2 != nil && (r1 == r2 || w.sameKey(r1, r2))
	}
	seen := map[*ssa.BasicBlock]bool{}
	var visit func(b *ssa.BasicBlock, from int) bool
	visit = func(b *ssa.BasicBlock, from int) bool {
		if from == 0 {
			if seen[b] {
				return true
			}
			seen[b] = true
		}
		for i := from; i < len(b.Instrs); i++ {
			in := b.Instrs[i]
			if isLift(in) {
				return true
			}
			switch x := in.(type) {
			case *ssa.Go:
				return false // the connection may be handed on with the deadline armed
			case *ssa.Return:
				for _, f := range w.factsAt(x) {
					if v, isNil, ok := nilFact(f); ok && !isNil {
						if fc, _ := callOf(w.resolveLoad(v)); fc == arm {
							return true // arming failed: nothing is armed
						}
					}
				}
				return false
			}
		}
		if len(b.Succs) == 0 {
			return false
		}
		for _, s2 := range liveSuccs(b) {
			if !visit(s2, 0) {
				return false
			}
		}
		return true
	}
	idx := 0
	for i, in := range arm.Block().Instrs {
		if in == ssa.Instruction(arm) {
			idx = i + 1
		}
	}
	return visit(arm.Block(), idx)
}

// resultChBuffered: every channel stored into Transaction.resultCh is made with a constant
// capacity of at least one.
func resultChBuffered(w *World) bool {
	n, ok := 0, true
	for _, fn := range w.ModFns {
		w.eachInstr(fn, func(in ssa.Instruction) {
			st, isSt := in.(*ssa.Store)
			if !isSt {
				return
			}
			fa, isFA := st.Addr.(*ssa.FieldAddr)
			if !isFA || fieldOf(fa).Name() != "resultCh" {
				return
			}
			if isNilConst(st.Val) {
				return
			}
			for _, lf := range w.guardedLeaves(st.Val, st) {
				v := stripIface(w.resolveLoad(lf.val))
				if isNilConst(v) {
					continue
				}
				n++
				mk, isMk := v.(*ssa.MakeChan)
				if !isMk {
					ok = false
					continue
				}
				if k, isK := constInt(mk.Size); !isK || k < 1 {
					ok = false
				}
			}
		})
	}
	return n > 0 && ok
}

// rangeStaysValid: the value stored into MinPort (MaxPort) is provably ≤ MaxPort (≥ MinPort) of
// the same object at the store, from the conditions the store sits under.
func rangeStaysValid(w *World, st *ssa.Store, fa *ssa.FieldAddr, name string) bool {
	other := "MaxPort"
	if name == "MaxPort" {
		other = "MinPort"
	}
	a := w.absint()
	ok := false
	w.eachInstr(st.Parent(), func(in ssa.Instruction) {
		ld, isLd := in.(*ssa.UnOp)
		if !isLd || ok {
			return
		}
		b, f, isL := fieldLoad(ld)
		if !isL || f.Name() != other || !w.sameKey(b, fa.X) || !instrDominates(ld, st) {
			return
		}
		if name == "MinPort" {
			if p, _ := a.proveLE(termOf(st.Val), termOf(ld), st); p {
				ok = true
			}
		} else if p, _ := a.proveLE(termOf(ld), termOf(st.Val), st); p {
			ok = true
		}
	})
	return ok
}

// ---- C10.8: the stream framer gives up only on a read error or an invalid frame
func ruleFramerRefusals(c *Ctx, rule string) {
	w := c.W
	c.Rule(rule, "STUNConn.ReadFrom returns an error only when reading from the connection failed or consumeSingleTURNFrame reported an invalid frame (closed refusal set): no size or count limit judged on the reassembly buffer plus the latest read can refuse a legal stream — how the stream is cut into reads must not matter", 1)
	fn := w.Func("proto", "STUNConn", "ReadFrom")
	ruleRefusals(c, rule, fn, "refusals", nil,
		func(in ssa.Instruction) bool {
			switch x := in.(type) {
			case *ssa.Return:
				return len(x.Results) == 3 && isNilConst(w.resolveLoad(x.Results[2]))
			case *ssa.Call:
				return x.Call.StaticCallee() == fn // reads on: the tail call
			}
			return false
		},
		func(e refusalEdge) string {
			// whatever the branch looks like: what is returned on the refusing side is the
			// error of the connection's Read or the framer's own error, handed on as it is
			isSource := w.calleeOrWrapper("Read", "consumeSingleTURNFrame")
			seen := map[*ssa.BasicBlock]bool{}
			n, ok := 0, true
			var visit func(b *ssa.BasicBlock)
			visit = func(b *ssa.BasicBlock) {
				if seen[b] || !ok {
					return
				}
				seen[b] = true
				for _, in := range b.Instrs {
					r, isR := in.(*ssa.Return)
					if !isR || len(r.Results) == 0 {
						continue
					}
					n++
					for _, lf := range w.guardedLeaves(r.Results[len(r.Results)-1], r) {
						v := stripIface(w.resolveLoad(lf.val))
						if isNilConst(v) {
							continue
						}
						call, _ := callOf(v)
						if call == nil || !isSource(call) {
							ok = false
						}
					}
				}
				for _, s2 := range liveSuccs(b) {
					visit(s2)
				}
			}
			visit(e.to)
			if ok && n > 0 {
				return "hands on the error of the connection's Read or of the framer"
			}
			return ""
		}, "a well-formed stream is refused for some ways of splitting it into reads and accepted for others (the bytes pending plus the bytes just read say nothing about the size of any frame)")
}

// ---- C09.14: a failed read ends the server's read loop
func ruleReadLoopEndsOnError(c *Ctx, rule string) {
	w := c.W
	c.Rule(rule, "in Server.readLoop no path from the err != nil edge of the loop's ReadFrom leads back to that read: a sticky error (the stream framer's invalid-frame verdict leaves the offending bytes in its buffer) cannot turn the loop into a busy loop", 1)
	fn := w.Func("turn", "Server", "readLoop")
	c.Anchor(rule, "readLoop")
	n := 0
	w.eachInstr(fn, func(in ssa.Instruction) {
		call, ok := in.(*ssa.Call)
		if !ok || !call.Call.IsInvoke() || call.Call.Method.Name() != "ReadFrom" || !instrReaches(call, call) {
			return
		}
		n++
		var errV ssa.Value
		for _, r := range *call.Referrers() {
			if ex, isE := r.(*ssa.Extract); isE && ex.Type().String() == "error" {
				errV = ex
			}
		}
		if errV == nil {
			c.Bad(rule, fname(fn), "ReadFrom", w.instrPos(in), "the read's error result is not examined")
			return
		}
		bad := ""
		for _, b := range fn.Blocks {
			onErr := false
			for f := range w.facts(fn).in[b] {
				if v, isNil, ok := nilFact(f); ok && !isNil && v == errV {
					onErr = true
				}
			}
			if !onErr || len(b.Instrs) == 0 {
				continue
			}
			if b == call.Block() || instrReaches(b.Instrs[0], call) {
				bad = w.pos(b.Instrs[0].Pos())
			}
		}
		if bad == "" {
			c.OK(rule, fname(fn), "ReadFrom", w.instrPos(in), "every path from the read's error edge leaves the loop")
		} else {
			c.Bad(rule, fname(fn), "ReadFrom", w.instrPos(in), "after a failed read the loop can read again ("+bad+"): over TCP/TLS the same loop reads through STUNConn, whose invalid-frame error leaves the bytes in its buffer, so the next read fails the same way at once — an unauthenticated peer pins a core with twenty bytes, and the connection is never closed")
		}
	})
	if n == 0 {
		c.Bad(rule, fname(fn), "ReadFrom", w.pos(fn.Pos()), "no ReadFrom in a loop of readLoop: anchor gone")
	}
}

// ---- C12.13: no waiting for a callback while the transaction table is locked
func ruleNoWaitUnderTrMapLock(c *Ctx, rule string) {
	w := c.W
	c.Rule(rule, "nothing waits for another goroutine ((*sync.WaitGroup).Wait) while Client.mutexTrMap is held: the retransmission callback the waiter would wait for starts by taking that lock", 0)
	li := w.lockInfo()
	for _, fn := range w.ModFns {
		w.eachInstr(fn, func(in ssa.Instruction) {
			call, ok := in.(*ssa.Call)
			if !ok || call.Call.StaticCallee() == nil || call.Call.StaticCallee().String() != "(*sync.WaitGroup).Wait" {
				return
			}
			if !holds(li.mustAt(call), "turn.Client.mutexTrMap", false) {
				return
			}
			c.Anchor(rule, fname(fn))
			c.Bad(rule, fname(fn), "WaitGroup.Wait", w.instrPos(in), "waits for running callbacks with Client.mutexTrMap held (every caller holds it here): a retransmission callback that has fired but not yet taken the lock is exactly what is waited for — Close never returns and the transactions it has not reached stay pending for ever")
		})
	}
}

// ---- C13.14: the inbound path takes no lock that is held across a transaction
func ruleInboundLocksNotHeldAcrossTransactions(c *Ctx, rule string) {
	w := c.W
	c.Rule(rule, "UDPConn.HandleInbound (callees included) acquires no lock of a class that some function holds while it performs a transaction (PerformTransaction): the goroutine that delivers inbound data is the one that must deliver the transaction's response", 1)
	li := w.lockInfo()
	heldAcross := map[string]string{}
	// functions that perform a transaction, directly or through what they call
	reaches := map[*ssa.Function]int{} // 1 yes, 2 no, 3 in progress
	var performs func(g *ssa.Function, d int) bool
	performs = func(g *ssa.Function, d int) bool {
		if r := reaches[g]; r == 1 {
			return true
		} else if r != 0 || d > 6 {
			return false
		}
		reaches[g] = 3
		res := false
		w.eachInstr(g, func(in ssa.Instruction) {
			call, ok := in.(*ssa.Call)
			if !ok || res {
				return
			}
			if call.Call.IsInvoke() && call.Call.Method.Name() == "PerformTransaction" {
				res = true
				return
			}
			if h := call.Call.StaticCallee(); h != nil {
				if h.Name() == "PerformTransaction" || (w.IsMod[h] && len(h.Blocks) > 0 && performs(h, d+1)) {
					res = true
				}
			}
		})
		if res {
			reaches[g] = 1
		} else {
			reaches[g] = 2
		}
		return res
	}
	for _, fn := range w.ModFns {
		if !strings.Contains(fnPkgPath(fn), "/internal/client") {
			continue
		}
		w.eachInstr(fn, func(in ssa.Instruction) {
			call, ok := in.(*ssa.Call)
			if !ok {
				return
			}
			blocking := call.Call.IsInvoke() && call.Call.Method.Name() == "PerformTransaction"
			if h := call.Call.StaticCallee(); h != nil && (h.Name() == "PerformTransaction" || (w.IsMod[h] && len(h.Blocks) > 0 && performs(h, 0))) {
				blocking = true
			}
			if !blocking {
				return
			}
			for k := range li.mustAt(call) {
				cls := strings.TrimSuffix(strings.TrimSuffix(k, "/W"), "/R")
				heldAcross[cls] = w.instrPos(call)
			}
		})
	}
	fn := w.Func("client", "UDPConn", "HandleInbound")
	c.Anchor(rule, "HandleInbound")
	bad := ""
	seen := map[*ssa.Function]bool{}
	var visit func(g *ssa.Function, d int)
	visit = func(g *ssa.Function, d int) {
		if seen[g] || d > 4 {
			return
		}
		seen[g] = true
		w.eachInstr(g, func(in ssa.Instruction) {
			call, ok := in.(*ssa.Call)
			if !ok {
				return
			}
			if lo := w.lockOpOf(&call.Call); lo != nil && (lo.op == "Lock" || lo.op == "RLock") {
				if at, blocked := heldAcross[lo.class]; blocked && bad == "" {
					bad = lo.class + " (taken at " + w.instrPos(call) + ", held across the transaction at " + at + ")"
				}
			}
			if h := call.Call.StaticCallee(); h != nil && w.IsMod[h] && len(h.Blocks) > 0 {
				visit(h, d+1)
			}
		})
	}
	visit(fn, 0)
	if bad == "" {
		c.OK(rule, fname(fn), "locks", w.pos(fn.Pos()), fmt.Sprintf("acquires none of the %d lock classes held across transactions", len(heldAcross)))
	} else {
		c.Bad(rule, fname(fn), "locks", w.pos(fn.Pos()), "the inbound path takes "+bad+": while that transaction is in flight the Listen goroutine blocks here, and it is the goroutine that has to deliver the transaction's response — the inbound path stalls until every retransmission has timed out")
	}
}

// ---- C13.15: the client is told once that a relayed conn is gone
func ruleDeallocatedOnce(c *Ctx, rule string) {
	w := c.W
	c.Rule(rule, "UDPConn.Close reports OnDeallocated only after it has closed closeCh itself (the call is dominated by the close of the channel on the not-yet-closed path): a second Close of an old conn cannot de-register the client's current relayed conn", 1)
	fn := w.Func("client", "UDPConn", "Close")
	c.Anchor(rule, "Close")
	var closes []*ssa.Call
	var reports []*ssa.Call
	w.eachInstrDeep(fn, func(in ssa.Instruction) {
		call, ok := in.(*ssa.Call)
		if !ok {
			return
		}
		if b, isB := call.Call.Value.(*ssa.Builtin); isB && b.Name() == "close" {
			closes = append(closes, call)
		}
		if call.Call.IsInvoke() && call.Call.Method.Name() == "OnDeallocated" {
			reports = append(reports, call)
		}
	})
	if len(reports) == 0 {
		c.Bad(rule, fname(fn), "OnDeallocated", w.pos(fn.Pos()), "Close no longer reports OnDeallocated: anchor gone")
		return
	}
	closeCh := w.FieldOpt("client", "UDPConn", "closeCh")
	for _, r := range reports {
		ok := false
		for _, cl := range closes {
			if cl.Parent() == r.Parent() && instrDominates(cl, r) {
				ok = true
			}
		}
		// ... or on the edge where the closed-test said "not closed yet", inside the lock
		// that serialises Close (the close of the channel follows in the same hold)
		if !ok && closeCh != nil {
			for _, f := range w.factsAt(r) {
				if f.Op != "true" || f.Truth {
					continue
				}
				if pc, _ := callOf(f.X); pc != nil && w.closedTestPred(pc.Call.StaticCallee(), closeCh) {
					for _, cl := range closes {
						if cl.Parent() == r.Parent() && instrDominates(r, cl) && holds(w.lockInfo().mustAt(r), "client.UDPConn.closeMutex", true) {
							ok = true
						}
					}
				}
			}
		}
		if ok {
			c.OK(rule, fname(fn), "OnDeallocated", w.instrPos(r), "after the conn closed closeCh itself")
		} else {
			c.Bad(rule, fname(fn), "OnDeallocated", w.instrPos(r), "OnDeallocated is reported on every Close, also on a conn that was closed before: Client.OnDeallocated clears whatever relayed conn the client holds now, so closing an old conn again silences the live allocation — its Data indications and ChannelData are dropped as \"no relayed conn\"")
		}
	}
}

// ---- C05.12: nobody appends onto a shortened view of bytes it was handed
func ruleNoAppendOntoCallersBytes(c *Ctx, rule string) {
	w := c.W
	c.Rule(rule, "in packages allocation, server and proto no function appends onto a shortened view p[:k] of a byte slice it received as a parameter or receiver, unless the resulting slice is what it returns (an append-style API): such an append writes into the caller's memory behind k — for the relay that memory is the datagram still to be forwarded", 0)
	pkgs := map[string]bool{w.tpkg("server").Path(): true, w.tpkg("allocation").Path(): true, w.tpkg("proto").Path(): true}
	for _, fn := range w.ModFns {
		if !pkgs[fnPkgPath(fn)] {
			continue
		}
		w.eachInstr(fn, func(in ssa.Instruction) {
			call, ok := in.(*ssa.Call)
			if !ok {
				return
			}
			b, isB := call.Call.Value.(*ssa.Builtin)
			if !isB || b.Name() != "append" || len(call.Call.Args) < 1 {
				return
			}
			sl, isS := stripIface(call.Call.Args[0]).(*ssa.Slice)
			if !isS || sl.High == nil {
				return
			}
			if k, isK := constInt(sl.High); isK && k == 0 {
				return // p[:0]: reuse of a buffer the caller hands over for that purpose
			}
			base := stripIface(sl.X)
			for i := 0; i < 4; i++ {
				if ct, isCT := base.(*ssa.ChangeType); isCT {
					base = ct.X
					continue
				}
				break
			}
			p, isP := base.(*ssa.Parameter)
			if !isP {
				return
			}
			if el, isSl := p.Type().Underlying().(*types.Slice); !isSl || el.Elem().String() != "byte" && el.Elem().String() != "uint8" {
				return
			}
			// returned as the slice? (append-style API)
			returned := false
			for _, r := range *call.Referrers() {
				if _, isR := r.(*ssa.Return); isR {
					returned = true
				}
			}
			if returned {
				return
			}
			c.Anchor(rule, fname(fn))
			c.Bad(rule, fname(fn), "append", w.instrPos(in), "appends onto "+p.Name()+"[:k], a shortened view of bytes this function was handed, and does not return the slice: the bytes behind k in the caller's buffer are overwritten (a log preview built on the relay's read buffer alters the payload that is forwarded next)")
		})
	}
}
