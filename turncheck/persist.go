package main

// Persistent slice fields.
//
// A slice field whose backing array is never written below the field's current length —
// every store into the field is append(field, …) (which writes at or past the length, or
// moves to a new array) or a freshly built slice, no element is assigned, nothing shifts or
// sorts it in place, and no shortened view of it is stored back or appended to — behaves
// like an immutable value for whoever holds an old copy of the slice header: the elements
// that holder can see never change. Handing such a view out of the critical section is then
// as good as handing out a copy, provided the holders do not write through it either.

import (
	"go/token"
	"go/types"

	"golang.org/x/tools/go/ssa"
)

// overwrittenBelowLen: "" when fld (a slice field) is persistent in the sense above and the
// module's own holders of views handed out by the accessors only read them; otherwise where
// and how the array can change under a holder.
func (w *World) overwrittenBelowLen(fld *types.Var) string {
	if w.persistMemo == nil {
		w.persistMemo = map[*types.Var]string{}
	}
	if r, ok := w.persistMemo[fld]; ok {
		return r
	}
	res := ""
	fail := func(in ssa.Instruction, why string) {
		if res == "" {
			res = why + " at " + w.instrPos(in)
		}
	}
	isFieldLoad := func(v ssa.Value) bool {
		_, f, ok := fieldLoad(v)
		return ok && f == fld
	}
	// fresh: a slice value that shares no array with the field
	var fresh func(v ssa.Value, d int) bool
	fresh = func(v ssa.Value, d int) bool {
		v = stripIface(w.resolveLoad(v))
		if d > 8 {
			return false
		}
		switch x := v.(type) {
		case *ssa.Const:
			return true
		case *ssa.MakeSlice:
			return true
		case *ssa.Slice:
			if _, isArr := x.X.(*ssa.Alloc); isArr {
				return true
			}
			return fresh(x.X, d+1)
		case *ssa.Phi:
			for _, e := range x.Edges {
				if e != ssa.Value(x) && !fresh(e, d+1) {
					return false
				}
			}
			return true
		case *ssa.Call:
			if b, ok := x.Call.Value.(*ssa.Builtin); ok && b.Name() == "append" {
				return fresh(x.Call.Args[0], d+1)
			}
			return w.freshCopyOf(x) != nil
		}
		return false
	}
	// readOnlyUses: every use of a view value v (the field's value or something sharing its
	// array) only reads the array, hands the view on to a judged place, or stores it straight
	// back into the field through append(field, …)
	var readOnly func(v ssa.Value, holder bool, d int)
	seen := map[ssa.Value]bool{}
	readOnly = func(v ssa.Value, holder bool, d int) {
		if seen[v] || v.Referrers() == nil || res != "" {
			return
		}
		seen[v] = true
		if d > 8 {
			fail(v.(ssa.Instruction), "a view of "+fld.Name()+" is passed around too far to follow")
			return
		}
		for _, r := range *v.Referrers() {
			switch u := r.(type) {
			case *ssa.DebugRef:
			case *ssa.IndexAddr:
				for _, r2 := range *u.Referrers() {
					if st, isSt := r2.(*ssa.Store); isSt && st.Addr == ssa.Value(u) {
						fail(st, "an element of "+fld.Name()+" is assigned in place")
					}
				}
			case *ssa.Index, *ssa.Range:
			case *ssa.Slice:
				readOnly(u, holder, d+1)
			case *ssa.Phi:
				readOnly(u, holder, d+1)
			case *ssa.MakeInterface, *ssa.ChangeType:
				readOnly(u.(ssa.Value), holder, d+1)
			case *ssa.Return:
				if holder {
					fail(u, "a holder hands the view of "+fld.Name()+" on")
				}
				// an accessor of the owner: its callers are the holders (below)
			case *ssa.Store:
				if fa, isFA := u.Addr.(*ssa.FieldAddr); isFA && fieldOf(fa) == fld && !holder {
					fail(u, "a view of "+fld.Name()+" (re-sliced, not appended to) is stored back into the field: a later append overwrites what an older view still shows")
				} else if al, isAl := u.Addr.(*ssa.Alloc); isAl && !w.escapes(al) {
					// a local variable: its loads are further uses
					for _, r2 := range *al.Referrers() {
						if ld, isLd := r2.(*ssa.UnOp); isLd && ld.Op == token.MUL {
							readOnly(ld, holder, d+1)
						}
					}
				} else {
					fail(u, "a view of "+fld.Name()+" is stored where its uses cannot be followed")
				}
			case *ssa.Call:
				if b, isB := u.Call.Value.(*ssa.Builtin); isB {
					switch b.Name() {
					case "len", "cap":
					case "append":
						if u.Call.Args[0] == v {
							if _, isSl := v.(*ssa.Slice); isSl || holder || !isFieldLoad(v) {
								fail(u, "append onto a view of "+fld.Name()+" can write into the shared array")
								break
							}
							// append(field, …): the result goes straight back into the field
							for _, r2 := range *u.Referrers() {
								switch s2 := r2.(type) {
								case *ssa.DebugRef:
								case *ssa.Store:
									if fa, isFA := s2.Addr.(*ssa.FieldAddr); !isFA || fieldOf(fa) != fld {
										fail(s2, "append(field, …) is not stored back into "+fld.Name())
									}
								default:
									fail(u, "append(field, …) is used other than to replace "+fld.Name())
								}
							}
						}
						// as the appended source: read
					case "copy":
						if u.Call.Args[0] == v {
							fail(u, "copy writes into the array of "+fld.Name())
						}
					default:
						fail(u, "builtin "+b.Name()+" on a view of "+fld.Name())
					}
					break
				}
				switch stdCallee(&u.Call) {
				case "slices.IndexFunc", "slices.Index", "slices.Contains", "slices.ContainsFunc", "slices.Equal", "slices.EqualFunc", "slices.Clone", "slices.Values", "slices.All":
					// read only
				case "slices.Clip":
					readOnly(u, holder, d+1)
				default:
					h := u.Call.StaticCallee()
					if h == nil || !w.IsMod[h] || len(h.Blocks) == 0 {
						fail(u, "a view of "+fld.Name()+" is handed to "+w.desc(u.Call.Value)+", which may write it")
						break
					}
					// a module function: its parameter is a further view
					for i, a := range u.Call.Args {
						if a == v && i < len(h.Params) {
							readOnly(h.Params[i], holder, d+1)
						}
					}
				}
			default:
				if _, isV := r.(ssa.Value); isV {
					fail(r, "a view of "+fld.Name()+" is used in a way that is not followed")
				}
			}
		}
	}
	var accessors []*ssa.Function
	for _, fn := range w.ModFns {
		w.eachInstr(fn, func(in ssa.Instruction) {
			switch x := in.(type) {
			case *ssa.Store:
				fa, ok := x.Addr.(*ssa.FieldAddr)
				if !ok || fieldOf(fa) != fld {
					return
				}
				v := stripIface(w.resolveLoad(x.Val))
				if call, isC := v.(*ssa.Call); isC {
					if b, isB := call.Call.Value.(*ssa.Builtin); isB && b.Name() == "append" && isFieldLoad(w.resolveLoad(call.Call.Args[0])) {
						return // append(field, …)
					}
				}
				if !fresh(v, 0) {
					fail(x, "the value stored into "+fld.Name()+" is neither append("+fld.Name()+", …) nor a freshly built slice")
				}
			case *ssa.UnOp:
				if x.Op == token.MUL && isFieldLoad(x) {
					readOnly(x, false, 0)
				}
			case *ssa.Return:
				for _, rv := range x.Results {
					if w.dependsOnView(rv, fld) {
						accessors = append(accessors, fn)
					}
				}
			}
		})
	}
	// the module's holders of what the accessors hand out
	for _, acc := range accessors {
		for _, cs := range w.callsTo(acc) {
			if v := cs.Value(); v != nil {
				readOnly(v, true, 0)
			}
		}
	}
	w.persistMemo[fld] = res
	return res
}

// dependsOnView: v is the field's value or a re-slice / Clip of it (shares its array).
func (w *World) dependsOnView(v ssa.Value, fld *types.Var) bool {
	for d := 0; d < 8; d++ {
		v = stripIface(w.resolveLoad(v))
		if _, f, ok := fieldLoad(v); ok && f == fld {
			return true
		}
		switch x := v.(type) {
		case *ssa.Slice:
			v = x.X
		case *ssa.Call:
			if stdCallee(&x.Call) == "slices.Clip" && len(x.Call.Args) == 1 {
				v = x.Call.Args[0]
			} else {
				return false
			}
		default:
			return false
		}
	}
	return false
}
