package main

import (
	"fmt"
	"go/token"
	"go/types"
	"sort"
	"strings"

	"golang.org/x/tools/go/ssa"
)

func init() {
	register(&propDef{
		ID:        "C12",
		Title:     "Client transactions match by ID, retransmit on schedule and always terminate",
		Technique: "path-sensitive insert/delete pairing over the CFG, lock-continuity typestate of find→delete→complete, key-agreement provenance, constants located by use, who-may-call on the channel close",
		Explanation: "C12.1 every path of PerformTransaction from the table insert ends having waited for the result, or having armed the timer on the ignore-result path, or having deleted the entry; " +
			"C12.2 completion belongs to the remover: every WriteResult is applied to a transaction the same function obtained by trMap.Find and removed by trMap.Delete of the same key, with Client.mutexTrMap held continuously from the Find to the Delete, which dominates the WriteResult; " +
			"C12.3 every path of onRtxTimeout ends in exactly one of: entry gone; delete+complete; retransmit+re-arm; " +
			"C12.4 the keys of Insert/Find/Delete are the base64 encoding of the TransactionID of the request resp. the decoded reply, or the key the timer carries (Transaction.Key, set from that encoding); " +
			"C12.5 schedule constants located by use: the retransmission counter is compared with 7, incremented by one per timer firing and handed to the callback; the interval is doubled unconditionally and capped by a comparison with, and assignment of, 1.6 s; " +
			"C12.6 Transaction.Close is called only from CloseAndDeleteAll, which is called only from Client.Close with mutexTrMap held; " +
			"C12.7 a response whose transaction is not in the table is ignored: handleSTUNMessage returns nil on the not-found edge (the Listen loop ends on any error); " +
			"C12.8 the message handed to the waiter is allocated for (or exclusively taken from a pool by) that packet, never remembered elsewhere, and not put back into a pool on any path after a hand-over that WriteResult reported as accepted (else the caller reads another transaction's response); " +
			"C12.9 no receive on the C channel of a timer made by time.AfterFunc (it is nil: the receive blocks for ever, with the transaction's locks held); " +
			"C12.10 the retransmission timer is armed only after the first transmission was written successfully: a callback that can fire while PerformTransaction may still leave through its write-error path completes a transaction nobody is waiting on (WriteResult blocks on the unbuffered result channel with the table lock held — PerformTransaction, Close and every other transaction hang). C12.11 a response is kept from WriteResult only when its id is not in trMap; C12.12 WriteResult hands the result over (unconditional send, or non-blocking into a buffered channel). C12.13 no WaitGroup.Wait with Client.mutexTrMap held.",
		NotCovered: "timing, loss/duplication schedules and 'never hangs' beyond these pairing rules; the scheduler.",
		Run:        runC12,
	})
}

func runC12(c *Ctx) {
	w := c.W
	li := w.lockInfo()
	perform := w.Func("turn", "Client", "PerformTransaction")
	_ = 0
	onRtx := w.Func("turn", "Client", "onRtxTimeout")
	insert := w.Func("client", "TransactionMap", "Insert")
	find := w.Func("client", "TransactionMap", "Find")
	del := w.Func("client", "TransactionMap", "Delete")
	writeRes := w.Func("client", "Transaction", "WriteResult")
	startRtx := w.Func("client", "Transaction", "StartRtxTimer")
	trClose := w.Func("client", "Transaction", "Close")
	closeAll := w.Func("client", "TransactionMap", "CloseAndDeleteAll")
	const lockTr = "turn.Client.mutexTrMap"

	// ---- C12.1
	ruleTransactionPairing(c, "C12.1")

	// ---- C12.2
	ruleCompletionByRemover(c, "C12.2")

	// ---- C12.3
	c.Rule("C12.3", "onRtxTimeout: every path from entry to a return (helpers inlined) is exactly one of (a) Find not ok: no Delete, no WriteResult, no StartRtxTimer; (b) Delete + WriteResult, no StartRtxTimer; (c) retransmission WriteTo + StartRtxTimer, no Delete", 1)
	{
		c.Anchor("C12.3", "onRtxTimeout")
		type st struct {
			find                *ssa.Call
			write               *ssa.Call
			del, res, arm, sent bool
		}
		bad := ""
		retSeen := map[*ssa.Return]bool{}
		isOp := func(in ssa.Instruction) bool {
			ci, ok := in.(ssa.CallInstruction)
			if !ok {
				return false
			}
			switch ci.Common().StaticCallee() {
			case find, del, writeRes, startRtx:
				return true
			}
			return ci.Common().IsInvoke() && ci.Common().Method.Name() == "WriteTo"
		}
		may := w.mayContain(isOp)
		cfg := &ipCfg[st]{w: w}
		cfg.Inline = func(_ ssa.CallInstruction, h *ssa.Function) bool {
			return w.IsMod[h] && fnPkgPath(h) == modPath && may(h)
		}
		cfg.Step = func(in ssa.Instruction, s st, env *pathEnv, _ []ssa.CallInstruction) st {
			ci, ok := in.(ssa.CallInstruction)
			if !ok {
				return s
			}
			if _, isGo := in.(*ssa.Go); isGo {
				return s
			}
			switch {
			case ci.Common().StaticCallee() == find:
				if call, isCall := in.(*ssa.Call); isCall {
					s.find = call
				}
			case ci.Common().StaticCallee() == del:
				s.del = true
			case ci.Common().StaticCallee() == writeRes:
				s.res = true
			case ci.Common().StaticCallee() == startRtx:
				s.arm = true
			case ci.Common().IsInvoke() && ci.Common().Method.Name() == "WriteTo":
				s.sent = true
				if call, isCall := in.(*ssa.Call); isCall {
					s.write = call
				}
			}
			return s
		}
		cfg.Return = func(x *ssa.Return, s st, env *pathEnv) {
			retSeen[x] = true
			notFound := false
			if s.find != nil {
				for _, r := range *s.find.Referrers() {
					if ex, ok := r.(*ssa.Extract); ok && ex.Index == 1 {
						if known, t := env.eval(ex, 0); known && !t {
							notFound = true
						}
					}
				}
			}
			for _, f := range w.factsAt(x) {
				if f.Op == "true" && !f.Truth {
					if fc, fi := callOf(f.X); fc != nil && fc.Call.StaticCallee() == find && fi == 1 {
						notFound = true
					}
				}
			}
			// the entry now under the key is another transaction: ours is gone just the same
			if s.find != nil && knownSameAsFind(w, env, s.find, nil) == -1 {
				notFound = true
			}
			// a retransmission whose write failed ends the transaction: it is not re-armed
			if s.write != nil && s.arm && s.write.Referrers() != nil {
				for _, r := range *s.write.Referrers() {
					if ex, ok := r.(*ssa.Extract); ok && ex.Type().String() == "error" {
						if known, isNil := env.knownNil(ex); known && !isNil {
							bad = fmt.Sprintf("on the path to the return at %s the retransmission's WriteTo failed and the timer is re-armed all the same: a socket write error no longer ends the transaction with an error (it is retried until the schedule runs out, or for ever on a dead socket's behalf)", w.instrPos(x))
						}
					}
				}
			}
			okA := notFound && !s.del && !s.res && !s.arm
			okB := !notFound && s.del && s.res && !s.arm
			okC := !notFound && s.sent && s.arm && !s.del && !s.res
			if !(okA || okB || okC) && bad == "" {
				bad = fmt.Sprintf("the return at %s ends in state {deleted:%v completed:%v re-armed:%v retransmitted:%v notFound:%v}: the transaction neither terminates nor continues cleanly", w.instrPos(x), s.del, s.res, s.arm, s.sent, notFound)
			}
		}
		explorePaths(cfg, onRtx, st{})
		nRet := len(retSeen)
		if cfg.Exhausted {
			bad = "undecided: path exploration exceeded its budget"
		}
		if bad == "" && nRet >= 1 {
			c.OK("C12.3", fname(onRtx), "paths", w.pos(onRtx.Pos()), fmt.Sprintf("%d returns: each path is entry-gone, delete+complete, or retransmit+re-arm", nRet))
		} else {
			if bad == "" {
				bad = "no return reached"
			}
			c.Bad("C12.3", fname(onRtx), "paths", w.pos(onRtx.Pos()), bad)
		}
	}

	// ---- C12.4
	c.Rule("C12.4", "key agreement: every key passed to trMap.Insert/Find/Delete in package turn is base64.StdEncoding.EncodeToString(m.TransactionID[:]) of a *stun.Message m (the request in PerformTransaction, the decoded inbound message in handleSTUNMessage), or the trKey parameter of onRtxTimeout; the timer callback is invoked with t.Key, and Transaction.Key is assigned from TransactionConfig.Key which PerformTransaction sets to that encoding", 5)
	{
		var isEncodedID func(v ssa.Value) bool
		isEncodedID = func(v ssa.Value) bool {
			call, _ := callOf(w.resolveLoad(v))
			// a one-line key helper of the module: key(id [12]byte) = base64(id[:]) of its
			// parameter, called with the message's TransactionID
			if call != nil {
				if h := call.Call.StaticCallee(); h != nil && w.IsMod[h] && len(h.Blocks) == 1 && len(h.Params) == 1 && len(call.Call.Args) == 1 {
					if rets := returnsOf(h); len(rets) == 1 && len(rets[0].Results) == 1 {
						if ec, _ := callOf(rets[0].Results[0]); ec != nil && ec.Call.StaticCallee() != nil && strings.HasSuffix(ec.Call.StaticCallee().String(), "base64.Encoding).EncodeToString") {
							if g := globalLoad(ec.Call.Args[0]); g != nil && g.Name() == "StdEncoding" {
								if sl, ok := ec.Call.Args[1].(*ssa.Slice); ok {
									if al, isAl := sl.X.(*ssa.Alloc); isAl {
										// the by-value array parameter is spilled into a local
										if ss := w.stores[w.locKey(al)]; len(ss) == 1 && ss[0].Val == ssa.Value(h.Params[0]) {
											if _, f, isL := fieldLoad(w.resolveLoad(call.Call.Args[0])); isL && f.Name() == "TransactionID" {
												return true
											}
										}
									}
								}
							}
						}
					}
				}
			}
			if call == nil || call.Call.StaticCallee() == nil || !strings.HasSuffix(call.Call.StaticCallee().String(), "base64.Encoding).EncodeToString") {
				return false
			}
			if g := globalLoad(call.Call.Args[0]); g == nil || g.Name() != "StdEncoding" {
				return false
			}
			sl, ok := call.Call.Args[1].(*ssa.Slice)
			if !ok {
				return false
			}
			fa, ok := sl.X.(*ssa.FieldAddr)
			return ok && fieldOf(fa).Name() == "TransactionID"
		}
		// tr.Key of a *Transaction: equals the table key provided Key is written only by
		// NewTransaction (from config.Key) and every Insert uses the config's Key (checked below)
		keyWriters := 0
		for _, fn := range w.ModFns {
			w.eachInstr(fn, func(in ssa.Instruction) {
				if st, ok := in.(*ssa.Store); ok {
					if fa, ok := st.Addr.(*ssa.FieldAddr); ok && fieldOf(fa).Name() == "Key" {
						if n := namedOf(fa.X.Type()); n != nil && n.Obj().Name() == "Transaction" && fn != w.Func("client", "", "NewTransaction") {
							keyWriters++
						}
					}
				}
			})
		}
		insertsOwn := true
		for _, cs := range w.callsTo(insert) {
			if fnPkgPath(cs.Parent()) != modPath {
				continue
			}
			okIns := false
			if nc, _ := callOf(w.resolveLoad(cs.Common().Args[2])); nc != nil && nc.Call.StaticCallee() == w.Func("client", "", "NewTransaction") {
				if al, isAl := w.resolveLoad(nc.Call.Args[0]).(*ssa.Alloc); isAl {
					if kv := w.literalOf(al).fields["Key"]; kv != nil && w.sameKey(kv, cs.Common().Args[1]) {
						okIns = true
					}
				}
			}
			if !okIns {
				insertsOwn = false
			}
		}
		isOwnKey := func(k ssa.Value) bool {
			base, f, isL := fieldLoad(w.resolveLoad(k))
			if !isL || f.Name() != "Key" || keyWriters != 0 || !insertsOwn {
				return false
			}
			n := namedOf(base.Type())
			return n != nil && n.Obj().Name() == "Transaction"
		}
		for _, target := range []*ssa.Function{insert, find, del} {
			for _, cs := range w.callsTo(target) {
				fn := cs.Parent()
				if fnPkgPath(fn) != modPath {
					continue
				}
				c.Anchor("C12.4", fname(fn)+"."+target.Name())
				k := cs.Common().Args[1]
				switch {
				case isEncodedID(k):
					c.OK("C12.4", fname(fn), target.Name()+" key", w.instrPos(cs), "base64(StdEncoding) of the message's TransactionID")
				case w.partOf(fn, onRtx) && w.sameKey(k, onRtx.Params[1]):
					c.OK("C12.4", fname(fn), target.Name()+" key", w.instrPos(cs), "the key carried by the timer")
				case target != insert && isOwnKey(k):
					c.OK("C12.4", fname(fn), target.Name()+" key", w.instrPos(cs), "the transaction's own Key (assigned once, from the encoding it is inserted under)")
				default:
					c.Bad("C12.4", fname(fn), target.Name()+" key", w.instrPos(cs), "transaction table key "+w.desc(k)+" is not the encoded TransactionID: requests and replies would not meet")
				}
			}
		}
		// timer passes t.Key; Key assigned from config.Key; config.Key is the encoding
		c.Anchor("C12.4", "timer key")
		okTimer := false
		var timerBodies []*ssa.Function
		w.eachInstr(startRtx, func(in ssa.Instruction) {
			if call, ok := in.(*ssa.Call); ok && call.Call.StaticCallee() == timeAfterFunc(w) {
				if mc, isMC := call.Call.Args[1].(*ssa.MakeClosure); isMC {
					timerBodies = append(timerBodies, w.helpersOf(w.closureBody(mc))...)
				}
			}
		})
		for _, a := range timerBodies {
			w.eachInstr(a, func(in ssa.Instruction) {
				call, ok := in.(*ssa.Call)
				if !ok || call.Call.StaticCallee() != nil || call.Call.IsInvoke() || len(call.Call.Args) != 2 {
					return
				}
				if _, f, isL := fieldLoad(call.Call.Args[0]); isL && f.Name() == "Key" {
					okTimer = true
				}
			})
		}
		okCfg := false
		w.eachInstrDeep(perform, func(in ssa.Instruction) {
			if al, ok := in.(*ssa.Alloc); ok {
				if n := namedOf(al.Type()); n != nil && n.Obj().Name() == "TransactionConfig" {
					if kv := w.literalOf(al).fields["Key"]; kv != nil && isEncodedID(kv) {
						okCfg = true
					}
				}
			}
		})
		okNew := false
		nt := w.Func("client", "", "NewTransaction")
		w.eachInstr(nt, func(in ssa.Instruction) {
			if st, ok := in.(*ssa.Store); ok {
				if fa, ok := st.Addr.(*ssa.FieldAddr); ok && fieldOf(fa).Name() == "Key" {
					if _, f, isL := fieldLoad(st.Val); isL && f.Name() == "Key" {
						okNew = true
					}
				}
			}
		})
		if okTimer && okCfg && okNew {
			c.OK("C12.4", fname(startRtx), "timer key", w.pos(startRtx.Pos()), "onTimeout(t.Key, n); Transaction.Key = config.Key = encoded TransactionID")
		} else {
			c.Bad("C12.4", fname(startRtx), "timer key", w.pos(startRtx.Pos()), fmt.Sprintf("the key the timer carries is not the table key (callback gets t.Key=%v, config.Key is the encoding=%v, NewTransaction copies it=%v)", okTimer, okCfg, okNew))
		}
	}

	// ---- C12.5
	c.Rule("C12.5", "schedule constants located by use: in onRtxTimeout the give-up edge is nRtx == K with K = 7; in the timer closure of StartRtxTimer nRtx is incremented by the constant 1 and that value is passed to the callback; the interval is multiplied by the constant 2 on every firing (the store is not control-dependent on a comparison of the interval) and a store of the constant 1.6 s lies on the edge interval > 1.6 s; the timer is armed with t.interval", 4)
	{
		c.Anchor("C12.5", "give-up count")
		// located by use: the retransmission write happens only while the counter has not
		// reached K (nRtx != K, or nRtx < K), whichever way the branch is written
		k := int64(-1)
		w.eachInstrDeep(onRtx, func(in ssa.Instruction) {
			call, ok := in.(*ssa.Call)
			if !ok || !call.Call.IsInvoke() || call.Call.Method.Name() != "WriteTo" {
				return
			}
			for _, f := range w.factsAt(in) {
				switch {
				case f.Op == "==" && !f.Truth:
					for _, pair := range [][2]ssa.Value{{f.X, f.Y}, {f.Y, f.X}} {
						if w.sameKey(pair[0], onRtx.Params[2]) {
							if kk, isK := constInt(pair[1]); isK {
								k = kk
							}
						}
					}
				case f.Op == "<" && f.Truth && w.sameKey(f.X, onRtx.Params[2]):
					if kk, isK := constInt(f.Y); isK {
						k = kk
					}
				case f.Op == "<" && !f.Truth && w.sameKey(f.Y, onRtx.Params[2]):
					// !(K' < nRtx)  ==  nRtx <= K'  ==  nRtx < K'+1
					if kk, isK := constInt(f.X); isK {
						k = kk + 1
					}
				}
			}
		})
		if k == 7 {
			c.OK("C12.5", fname(onRtx), "give-up count", w.pos(onRtx.Pos()), "gives up when nRtx == 7 (7 transmissions in total)")
		} else {
			c.Bad("C12.5", fname(onRtx), "give-up count", w.pos(onRtx.Pos()), fmt.Sprintf("the transaction gives up at nRtx == %d, not 7", k))
		}
		var cl *ssa.Function
		nArm := 0
		w.eachInstr(startRtx, func(in ssa.Instruction) {
			if call, ok := in.(*ssa.Call); ok && call.Call.StaticCallee() == timeAfterFunc(w) {
				nArm++
				if mc, isMC := call.Call.Args[1].(*ssa.MakeClosure); isMC {
					cl = w.closureBody(mc)
				}
			}
		})
		if cl == nil || nArm != 1 {
			c.Bad("C12.5", fname(startRtx), "timer closure", w.pos(startRtx.Pos()), "expected one timer closure in StartRtxTimer")
		} else {
			okInc, okDouble, okCap, okArm := false, false, false, false
			doubleWhy := "no store of interval*2"
			isIntervalLoad := func(v ssa.Value) bool {
				_, f, isL := fieldLoad(w.resolveLoad(v))
				return isL && nm(f) == "interval"
			}
			isDoubled := func(v ssa.Value) bool {
				bo, ok := v.(*ssa.BinOp)
				if !ok {
					return false
				}
				switch bo.Op {
				case token.ADD: // x + x
					return isIntervalLoad(bo.X) && isIntervalLoad(bo.Y)
				case token.SHL: // x << 1
					k, isK := constInt(bo.Y)
					return isK && k == 1 && isIntervalLoad(bo.X)
				case token.MUL:
				default:
					return false
				}
				for _, p := range [][2]ssa.Value{{bo.X, bo.Y}, {bo.Y, bo.X}} {
					if kk, isK := constInt(p[1]); isK && kk == 2 {
						if _, f, isL := fieldLoad(w.resolveLoad(p[0])); isL && nm(f) == "interval" {
							return true
						}
					}
				}
				return false
			}
			isCap := func(v ssa.Value) bool {
				kk, isK := constInt(v)
				return isK && kk == int64(1600e6)
			}
			unconditional := func(in ssa.Instruction) bool {
				for _, f := range w.factsAt(in) {
					// `if interval < cap { double; clamp }`: an interval already at or above the
					// cap is left alone, one below it is doubled and then clamped (the clamp is
					// demanded separately) — nothing overshoots
					if f.Op == "<" && f.Truth && isCap(f.Y) {
						if _, ff, isL := fieldLoad(under(f.X)); isL && nm(ff) == "interval" {
							continue
						}
					}
					for _, side := range []ssa.Value{f.X, f.Y} {
						if side == nil {
							continue
						}
						if _, ff, isL := fieldLoad(under(side)); isL && nm(ff) == "interval" {
							return false
						}
					}
				}
				return true
			}
			w.eachInstrDeep(cl, func(in ssa.Instruction) {
				st, ok := in.(*ssa.Store)
				if !ok {
					return
				}
				fa, ok := st.Addr.(*ssa.FieldAddr)
				if !ok {
					return
				}
				switch nm(fieldOf(fa)) {
				case "nRtx":
					if bo, ok := st.Val.(*ssa.BinOp); ok && bo.Op == token.ADD {
						if kk, isK := constInt(bo.Y); isK && kk == 1 {
							if _, f, isL := fieldLoad(bo.X); isL && nm(f) == "nRtx" {
								okInc = true
							}
						}
					}
				case "interval":
					val := w.resolveLoad(st.Val)
					switch {
					case isDoubled(val):
						// form 1: interval *= 2; if interval > cap { interval = cap }
						if unconditional(in) {
							okDouble = true
						} else {
							doubleWhy = "the doubling at " + w.instrPos(in) + " is conditional on the interval itself: intervals that do not land exactly on the cap overshoot it (e.g. RTO 1 s → 2 s > 1.6 s)"
						}
					case isCap(val):
						for _, f := range w.factsAt(in) {
							if f.Op == "<" && f.Truth { // cap < interval
								if isCap(f.X) {
									if _, ff, isL := fieldLoad(f.Y); isL && nm(ff) == "interval" {
										okCap = true
									}
								}
							}
						}
					default:
						// form 2: interval = min(interval*2, cap)
						if mc, ok := val.(*ssa.Call); ok {
							if b, isB := mc.Call.Value.(*ssa.Builtin); isB && b.Name() == "min" && len(mc.Call.Args) == 2 {
								a0, a1 := w.resolveLoad(mc.Call.Args[0]), w.resolveLoad(mc.Call.Args[1])
								if (isDoubled(a0) && isCap(a1) || isDoubled(a1) && isCap(a0)) && unconditional(in) {
									okDouble, okCap = true, true
								}
							}
						}
						// form 4: interval = next(interval) with next a pure function returning the
						// doubled argument, or the cap on the edge cap < doubled
						if hc, ok := val.(*ssa.Call); ok && unconditional(in) {
							if h := hc.Call.StaticCallee(); h != nil && w.IsMod[h] && len(h.Blocks) > 0 && len(hc.Call.Args) >= 1 {
								var pIdx = -1
								for i, a := range hc.Call.Args {
									if isIntervalLoad(a) {
										pIdx = i
									}
								}
								if pIdx >= 0 && pIdx < len(h.Params) {
									prm := h.Params[pIdx]
									dblOfParam := func(v ssa.Value) bool {
										bo, ok := v.(*ssa.BinOp)
										if !ok {
											return false
										}
										isP := func(x ssa.Value) bool { return rawParamOf(x, h) == prm }
										switch bo.Op {
										case token.MUL:
											kx, okx := constInt(bo.X)
											ky, oky := constInt(bo.Y)
											return (isP(bo.X) && oky && ky == 2) || (isP(bo.Y) && okx && kx == 2)
										case token.ADD:
											return isP(bo.X) && isP(bo.Y)
										case token.SHL:
											ky, oky := constInt(bo.Y)
											return isP(bo.X) && oky && ky == 1
										}
										return false
									}
									all, nCap, nDbl := true, 0, 0
									for _, r := range returnsOf(h) {
										if len(r.Results) != 1 {
											all = false
											continue
										}
										for _, lf := range w.guardedLeaves(r.Results[0], r) {
											v := w.resolveLoad(lf.val)
											switch {
											case isCap(v):
												ok := false
												for _, f := range lf.facts {
													if f.Op == "<" && f.Truth && isCap(f.X) && dblOfParam(w.resolveLoad(f.Y)) {
														ok = true
													}
												}
												if ok {
													nCap++
												} else {
													all = false
												}
											case dblOfParam(v):
												ok := false
												for _, f := range lf.facts {
													if f.Op == "<" && !f.Truth && isCap(f.X) && w.resolveLoad(f.Y) == v {
														ok = true
													}
												}
												if ok {
													nDbl++
												} else {
													all = false
												}
											default:
												all = false
											}
										}
									}
									if all && nCap > 0 && nDbl > 0 {
										okDouble, okCap = true, true
									}
								}
							}
						}
						// form 3: v := interval*2; if v > cap { v = cap }; interval = v
						if ph, ok := val.(*ssa.Phi); ok && len(ph.Edges) == 2 && unconditional(in) {
							for i := 0; i < 2; i++ {
								d, k := w.resolveLoad(ph.Edges[i]), w.resolveLoad(ph.Edges[1-i])
								if !isDoubled(d) || !isCap(k) {
									continue
								}
								pred := ph.Block().Preds[1-i]
								var pf []Fact
								if len(pred.Instrs) > 0 {
									pf = append(pf, w.factsAt(pred.Instrs[0])...)
								}
								if len(pred.Preds) == 1 {
									pf = append(pf, edgeFacts(pred.Preds[0], pred)...)
								}
								for _, f := range pf {
									if f.Op == "<" && f.Truth && isCap(f.X) && f.Y == d {
										okDouble, okCap = true, true
									}
								}
							}
						}
					}
				}
			})
			af := timeAfterFunc(w)
			w.eachInstr(startRtx, func(in ssa.Instruction) {
				if call, ok := in.(*ssa.Call); ok && call.Call.StaticCallee() == af {
					if _, f, isL := fieldLoad(call.Call.Args[0]); isL && nm(f) == "interval" {
						okArm = true
					}
				}
			})
			c.Anchor("C12.5", "counter")
			if okInc {
				c.OK("C12.5", fname(cl), "counter", w.pos(cl.Pos()), "nRtx = nRtx + 1 per firing")
			} else {
				c.Bad("C12.5", fname(cl), "counter", w.pos(cl.Pos()), "the retransmission counter is not incremented by one per timer firing")
			}
			c.Anchor("C12.5", "doubling")
			if okDouble {
				c.OK("C12.5", fname(cl), "doubling", w.pos(cl.Pos()), "interval = interval * 2 unconditionally")
			} else {
				c.Bad("C12.5", fname(cl), "doubling", w.pos(cl.Pos()), doubleWhy)
			}
			c.Anchor("C12.5", "cap")
			if okCap && okArm {
				c.OK("C12.5", fname(cl), "cap", w.pos(cl.Pos()), "interval = 1.6 s on the edge interval > 1.6 s; the timer is armed with t.interval")
			} else {
				c.Bad("C12.5", fname(cl), "cap", w.pos(cl.Pos()), fmt.Sprintf("the retransmission interval is not capped at 1.6 s by compare-and-assign (cap=%v, armed with t.interval=%v)", okCap, okArm))
			}
		}
	}

	// ---- C12.6
	c.Rule("C12.6", "who-may-call: (*Transaction).Close has exactly one caller, (*TransactionMap).CloseAndDeleteAll, in the loop that deletes the entry; every caller of CloseAndDeleteAll holds Client.mutexTrMap for writing", 2)
	{
		c.Anchor("C12.6", "Transaction.Close")
		cs := w.callsTo(trClose)
		if len(cs) == 1 && cs[0].Parent() == closeAll {
			c.OK("C12.6", fname(closeAll), "Transaction.Close caller", w.instrPos(cs[0]), "only CloseAndDeleteAll closes result channels")
		} else {
			var who []string
			for _, x := range cs {
				who = append(who, fname(x.Parent()))
			}
			c.Bad("C12.6", fname(trClose), "Transaction.Close caller", w.pos(trClose.Pos()), "result channels are closed from "+strings.Join(who, ", ")+": a transaction closed outside the delete-all loop can still be completed by its remover")
		}
		c.Anchor("C12.6", "CloseAndDeleteAll")
		cs2 := w.callsTo(closeAll)
		clientClose := w.Func("turn", "Client", "Close")
		_ = clientClose
		unlocked := ""
		for _, x := range cs2 {
			if !holds(li.mustAt(x), lockTr, true) {
				unlocked = fname(x.Parent()) + " at " + w.instrPos(x)
			}
		}
		if len(cs2) >= 1 && unlocked == "" {
			c.OK("C12.6", fname(closeAll), "CloseAndDeleteAll caller", w.instrPos(cs2[0]), fmt.Sprintf("%d caller(s), each with Client.mutexTrMap held for writing", len(cs2)))
		} else {
			if unlocked == "" {
				unlocked = "nobody"
			}
			c.Bad("C12.6", fname(closeAll), "CloseAndDeleteAll caller", w.pos(closeAll.Pos()), "CloseAndDeleteAll (which closes the result channels of all pending transactions) is called without Client.mutexTrMap by "+unlocked+": a timer or reader that is between finding a transaction and completing it then sends on a closed channel")
		}
	}

	// ---- C12.7
	ruleLateResponsesIgnored(c, "C12.7")
	ruleResultOwnedByWaiter(c, "C12.8")
	ruleNoReceiveOnAfterFuncTimer(c, "C12.9")
	ruleArmAfterFirstWrite(c, "C12.10")
	ruleResponseCompletes(c, "C12.11")
	ruleResultHandOff(c, "C12.12")
	ruleNoWaitUnderTrMapLock(c, "C12.13")
}

func ruleLateResponsesIgnored(c *Ctx, rule string) {
	w := c.W
	handle := w.Func("turn", "Client", "handleSTUNMessage")
	find := w.Func("client", "TransactionMap", "Find")
	c.Rule(rule, "late and duplicate responses are ignored: in handleSTUNMessage the return on the trMap.Find not-ok edge returns a nil error (Client.Listen leaves its read loop on any HandleInbound error)", 1)
	{
		c.Anchor(rule, "not-found edge")
		n := 0
		bad := ""
		for _, dr := range w.returnsThrough(handle, 0, 3) {
			r := dr.ret
			for _, f := range w.factsAt(r) {
				if f.Op == "true" && !f.Truth {
					if fc, fi := callOf(f.X); fc != nil && fc.Call.StaticCallee() == find && fi == 1 {
						n++
						if !isNilConst(dr.val) {
							bad = "a response without a pending transaction makes handleSTUNMessage return an error at " + w.instrPos(r) + ": Client.Listen stops reading on the first duplicate or late response"
						}
					}
				}
			}
		}
		if n > 0 && bad == "" {
			c.OK(rule, fname(handle), "not-found edge", w.pos(handle.Pos()), "returns nil: the response is dropped")
		} else {
			if bad == "" {
				bad = "no return on the not-found edge"
			}
			c.Bad(rule, fname(handle), "not-found edge", w.pos(handle.Pos()), bad)
		}
	}
}

// ruleTransactionPairing (C12.1, shared with C14.6: the Refresh(0) sent by Close is the one
// fire-and-forget transaction; it is only retransmitted, and only leaves the table, if its
// timer is armed).
func ruleTransactionPairing(c *Ctx, rule string) {
	w := c.W
	perform := w.Func("turn", "Client", "PerformTransaction")
	insert := w.Func("client", "TransactionMap", "Insert")
	del := w.Func("client", "TransactionMap", "Delete")
	wait := w.Func("client", "Transaction", "WaitForResult")
	startRtx := w.Func("client", "Transaction", "StartRtxTimer")
	c.Rule(rule, "insert/delete pairing: in PerformTransaction (helpers inlined) the insert precedes the first write of the request; on every path from trMap.Insert(key, tr) to a return, one of: tr.WaitForResult() was called; tr.StartRtxTimer was called and the return is on the ignoreResult==true edge; trMap.Delete(key) with the same key was called; the nil-error return on the ignoreResult edge has the timer armed and the entry still in the table", 1)
	{
		c.Anchor(rule, "PerformTransaction")
		isOp := func(in ssa.Instruction) bool {
			switch staticCallee(in) {
			case insert, wait, startRtx, del:
				return true
			}
			return false
		}
		may := w.mayContain(isOp)
		type st struct {
			ins                    *ssa.Call
			waited, armed, deleted bool
		}
		bad := ""
		earlySend := ""
		var ins *ssa.Call
		nRet := 0
		cfg := &ipCfg[st]{w: w}
		cfg.Inline = func(_ ssa.CallInstruction, h *ssa.Function) bool {
			return w.IsMod[h] && fnPkgPath(h) == modPath && may(h)
		}
		cfg.Step = func(in ssa.Instruction, s st, env *pathEnv, _ []ssa.CallInstruction) st {
			ci, ok := in.(ssa.CallInstruction)
			if !ok {
				return s
			}
			if _, isGo := in.(*ssa.Go); isGo {
				return s
			}
			if ci.Common().IsInvoke() && ci.Common().Method.Name() == "WriteTo" && s.ins == nil {
				// the request goes out before the transaction is in the table: a response that
				// is handled before this write returns finds nothing and is thrown away
				earlySend = "the request is written at " + w.instrPos(in) + " before the transaction is inserted into the table: a response handled during that write is dropped as unknown"
			}
			switch ci.Common().StaticCallee() {
			case insert:
				if call, isCall := in.(*ssa.Call); isCall {
					s = st{ins: call}
					ins = call
				}
			case wait:
				s.waited = true
			case startRtx:
				s.armed = true
			case del:
				if s.ins != nil {
					k, ik := ci.Common().Args[1], s.ins.Call.Args[1]
					if w.sameKey(k, ik) || env.resolve(w.resolveLoad(k)) == env.resolve(w.resolveLoad(ik)) {
						s.deleted = true
					}
				}
			}
			return s
		}
		cfg.Return = func(x *ssa.Return, s st, env *pathEnv) {
			if s.ins == nil {
				return // nothing was inserted on this path
			}
			nRet++
			ignore := false
			for _, f := range w.factsAt(x) {
				if f.Op == "true" && f.Truth && w.sameKey(f.X, perform.Params[3]) {
					ignore = true
				}
			}
			if known, t := env.eval(perform.Params[3], 0); known && t {
				ignore = true
			}
			if !(s.waited || s.deleted || (s.armed && ignore)) {
				bad = "the return at " + w.instrPos(x) + " leaves the transaction in the table with nobody waiting and no timer armed (or the result not ignored): it stays there for the life of the client"
			}
			// a fire-and-forget transaction is retransmitted only while it is in the table with
			// its timer armed (the releasing Refresh of Close must survive the loss of a datagram)
			if ignore && isNilConst(w.resolveLoad(x.Results[len(x.Results)-1])) && (!s.armed || s.deleted) {
				bad = "the ignore-result return at " + w.instrPos(x) + " leaves a transaction that is not retransmitted (timer armed=" + fmt.Sprint(s.armed) + ", removed from the table=" + fmt.Sprint(s.deleted) + "): one lost datagram loses the request"
			}
		}
		explorePaths(cfg, perform, st{})
		switch {
		case ins == nil:
			c.Bad(rule, fname(perform), "trMap.Insert", w.pos(perform.Pos()), "PerformTransaction no longer inserts into the transaction table: anchor gone")
		case cfg.Exhausted:
			c.Bad(rule, fname(perform), "trMap.Insert", w.instrPos(ins), "undecided: path exploration exceeded its budget")
		case earlySend != "":
			c.Bad(rule, fname(perform), "trMap.Insert", w.instrPos(ins), earlySend)
		case bad == "":
			c.OK(rule, fname(perform), "trMap.Insert", w.instrPos(ins), fmt.Sprintf("%d paths return after the insert: each waited, deleted, or armed+ignore", nRet))
		default:
			c.Bad(rule, fname(perform), "trMap.Insert", w.instrPos(ins), bad)
		}
	}

}

// ruleResultOwnedByWaiter (C12.8): the message handed to a waiting transaction is the
// waiter's alone. Every TransactionResult written by the inbound path carries in Msg an
// object this invocation owns exclusively — allocated for the packet, or taken out of a
// sync.Pool — and on no path is that object (or the object it is part of) put back into a
// pool after it was handed over, deferred puts included: a recycled message is decoded into
// again while the caller of PerformTransaction still reads it — it would see another
// transaction's response.
func ruleResultOwnedByWaiter(c *Ctx, rule string) {
	w := c.W
	c.Rule(rule, "result ownership: the *stun.Message placed in TransactionResult.Msg by the inbound path is exclusively owned by this invocation (every origin, through helper results and phis, is an allocation or a sync.Pool.Get — never a remembered object), and on no path (helpers inlined, deferred calls replayed) does a sync.Pool.Put follow the hand-over", 1)
	write := w.Func("client", "Transaction", "WriteResult")
	handle := w.Func("turn", "Client", "handleSTUNMessage")
	isPut := func(in ssa.Instruction) bool {
		ci, ok := in.(ssa.CallInstruction)
		if !ok {
			return false
		}
		cal := ci.Common().StaticCallee()
		return cal != nil && cal.String() == "(*sync.Pool).Put"
	}
	handsOver := func(in ssa.Instruction) (bool, []ssa.Value) {
		call, ok := in.(*ssa.Call)
		if !ok || call.Call.StaticCallee() != write || len(call.Call.Args) < 2 {
			return false, nil
		}
		vals, ok := w.flow().structValueField(call.Call.Args[1], []string{"Msg"}, 0)
		if !ok {
			return true, nil
		}
		var out []ssa.Value
		for _, mv := range vals {
			if !isNilConst(stripIface(w.resolveLoad(mv))) {
				out = append(out, mv)
			}
		}
		return len(out) > 0, out
	}
	n := 0
	handedAllocs := map[*ssa.Alloc]bool{}
	handedOther := false
	w.eachInstrDeep(handle, func(in ssa.Instruction) {
		is, vals := handsOver(in)
		if !is {
			return
		}
		n++
		c.Anchor(rule, "result message")
		if vals == nil {
			c.Bad(rule, fname(in.Parent()), "result message", w.instrPos(in), "cannot identify the message placed in the TransactionResult")
			return
		}
		for _, mv := range vals {
			if al, isAl := stripIface(w.allocRoot(mv)).(*ssa.Alloc); isAl {
				handedAllocs[al] = true
			} else {
				handedOther = true
			}
			org := map[string]bool{}
			w.ptrOrigins(mv, 5, map[ssa.Value]bool{}, org)
			var bad []string
			for k := range org {
				if k != "fresh" && k != "pool" && k != "nil" {
					bad = append(bad, k)
				}
			}
			sort.Strings(bad)
			if len(bad) > 0 || !(org["fresh"] || org["pool"]) {
				c.Bad(rule, fname(in.Parent()), "result message", w.instrPos(in), fmt.Sprintf("the message handed to the waiting transaction is not owned by this invocation (origins: %v): a remembered message is overwritten by a later packet while the waiter still reads it", leafList(org)))
			} else {
				c.OK(rule, fname(in.Parent()), "result message", w.instrPos(in), "allocated for (or exclusively taken by) this invocation")
			}
		}
	})
	if n == 0 {
		c.Anchor(rule, "result message")
		c.Bad(rule, fname(handle), "result message", w.pos(handle.Pos()), "no TransactionResult with a message is written on the inbound path: anchor gone")
		return
	}
	// the bytes the message's attributes point into belong to the message too: whatever is
	// stored into Message.Raw on the inbound path is a private copy of the packet, not the
	// caller's (reused) read buffer
	{
		c.Anchor(rule, "raw bytes")
		scope := map[*ssa.Function]bool{}
		for _, f := range w.reachableHelpers(handle) {
			scope[f] = true
		}
		w.eachInstrDeep(handle, func(in ssa.Instruction) { scope[in.Parent()] = true })
		nRaw := 0
		var freshAt func(v ssa.Value, at *ssa.Function, d int) bool
		freshAt = func(v ssa.Value, at *ssa.Function, d int) bool {
			if isNilConst(stripIface(w.resolveLoad(v))) || w.freshBytes(v, 0) {
				return true
			}
			p, isP := stripIface(w.resolveLoad(v)).(*ssa.Parameter)
			if !isP || d > 2 || p.Parent() == handle {
				return false
			}
			sites := w.callsTo(p.Parent())
			if len(sites) == 0 {
				return false
			}
			for _, cs := range sites {
				i := paramIndex(p)
				if i < 0 || i >= len(cs.Common().Args) || !freshAt(cs.Common().Args[i], cs.Parent(), d+1) {
					return false
				}
			}
			return true
		}
		for _, f := range sortedFns(scope) {
			w.eachInstr(f, func(in ssa.Instruction) {
				st, ok := in.(*ssa.Store)
				if !ok {
					return
				}
				fa, ok := st.Addr.(*ssa.FieldAddr)
				if !ok || nm(fieldOf(fa)) != "Raw" || !strings.HasSuffix(derefType(fa.X.Type()).String(), "stun/v3.Message") {
					return
				}
				// a message object that is provably not the one handed over (the in-place decode
				// a copy is made from) is not the waiter's concern
				if al, isAl := rootAddr(fa.X).(*ssa.Alloc); isAl && !handedOther && len(handedAllocs) > 0 && !handedAllocs[al] {
					if _, isStruct := al.Type().Underlying().(*types.Pointer).Elem().Underlying().(*types.Struct); isStruct {
						return
					}
				}
				nRaw++
				// msg.Raw = append(msg.Raw[:0], data...): the packet is copied into storage the
				// message already owns
				selfAppend := false
				if ac, isC := stripIface(st.Val).(*ssa.Call); isC {
					if b, isB := ac.Call.Value.(*ssa.Builtin); isB && b.Name() == "append" && len(ac.Call.Args) == 2 {
						base := ac.Call.Args[0]
						if sl, isSl := base.(*ssa.Slice); isSl {
							base = sl.X
						}
						if ld, isLd := base.(*ssa.UnOp); isLd && ld.Op == token.MUL {
							if fa2, isFA := ld.X.(*ssa.FieldAddr); isFA && fa2.Field == fa.Field && (fa2.X == fa.X || w.sameKey(fa2.X, fa.X)) {
								selfAppend = true
							}
						}
					}
				}
				if selfAppend || freshAt(st.Val, f, 0) {
					c.OK(rule, fname(f), "raw bytes", w.instrPos(in), "the message decodes a private copy of the packet")
				} else {
					c.Bad(rule, fname(f), "raw bytes", w.instrPos(in), "the message handed to the waiting transaction is decoded in place over the caller's buffer ("+w.desc(st.Val)+"): its attributes point into the read buffer the listen loop reuses, so the next datagram rewrites the response the caller is still reading")
				}
			})
		}
		if nRaw == 0 {
			// the handed message is filled by the library's deep copy (msg.CloneTo(clone))
			cloned := 0
			for _, f := range sortedFns(scope) {
				w.eachInstr(f, func(in ssa.Instruction) {
					if call, ok := in.(*ssa.Call); ok && stdCallee(&call.Call) == "(*github.com/pion/stun/v3.Message).CloneTo" && len(call.Call.Args) == 2 {
						if al, isAl := stripIface(w.allocRoot(call.Call.Args[1])).(*ssa.Alloc); isAl && handedAllocs[al] {
							cloned++
						}
					}
				})
			}
			if cloned > 0 && !handedOther && cloned >= len(handedAllocs) {
				c.OK(rule, fname(handle), "raw bytes", w.pos(handle.Pos()), "the message handed over is a deep copy made by stun's CloneTo")
			} else {
				c.Bad(rule, fname(handle), "raw bytes", w.pos(handle.Pos()), "no store to Message.Raw found on the inbound path: anchor gone")
			}
		}
	}
	// no pool.Put after the hand-over, on any path
	c.Anchor(rule, "no recycling after hand-over")
	may := w.mayContain(func(in ssa.Instruction) bool {
		is, _ := handsOver(in)
		return is || isPut(in)
	})
	// WriteResult reporting false means that nobody received the result — provided that is what
	// its body says: no path of it sends on a channel and then returns anything but true
	falseMeansKept := func() bool {
		good := true
		wc := &ipCfg[bool]{w: w}
		wc.Inline = func(_ ssa.CallInstruction, h *ssa.Function) bool { return w.IsMod[h] }
		wc.Step = func(in ssa.Instruction, sent bool, _ *pathEnv, _ []ssa.CallInstruction) bool {
			switch x := in.(type) {
			case *ssa.Send:
				return true
			case *ssa.Select:
				for _, st := range x.States {
					if st.Dir == types.SendOnly {
						return true
					}
				}
			case *ssa.Store:
				return sent
			case ssa.CallInstruction:
				if _, isB := x.Common().Value.(*ssa.Builtin); isB {
					return sent
				}
				if h := x.Common().StaticCallee(); h == nil || !w.IsMod[h] {
					return true // an unknown call may publish the result
				}
			}
			return sent
		}
		wc.Return = func(r *ssa.Return, sent bool, env *pathEnv) {
			if !sent || len(r.Results) != 1 {
				return
			}
			if known, t := env.eval(r.Results[0], 0); !known || !t {
				good = false
			}
		}
		explorePaths(wc, write, false)
		return good && !wc.Exhausted
	}()
	cfg := &ipCfg[*ssa.Call]{w: w}
	cfg.Inline = func(_ ssa.CallInstruction, h *ssa.Function) bool {
		return w.IsMod[h] && h != write && may(h)
	}
	bad := ""
	cfg.Step = func(in ssa.Instruction, handed *ssa.Call, env *pathEnv, _ []ssa.CallInstruction) *ssa.Call {
		if is, _ := handsOver(in); is {
			return in.(*ssa.Call)
		}
		if handed != nil && isPut(in) {
			if known, t := env.eval(handed, 0); falseMeansKept && known && !t {
				return handed // the path learned that nobody received it
			}
			bad = "after the decoded message was handed to the waiting transaction, this invocation puts an object back into a sync.Pool at " + w.instrPos(in)
		}
		return handed
	}
	cfg.Return = func(*ssa.Return, *ssa.Call, *pathEnv) {}
	explorePaths(cfg, handle, nil)
	switch {
	case cfg.Exhausted:
		c.Bad(rule, fname(handle), "no recycling after hand-over", w.pos(handle.Pos()), "undecided: path exploration exceeded its budget")
	case bad != "":
		c.Bad(rule, fname(handle), "no recycling after hand-over", w.pos(handle.Pos()), bad+": the message is decoded into again for a later packet while the waiter still reads it — the caller would see another transaction's response")
	default:
		c.OK(rule, fname(handle), "no recycling after hand-over", w.pos(handle.Pos()), "no sync.Pool.Put is reachable after the hand-over")
	}
}

// knownSameAsFind: what the path knows about `Find result == v` (v nil: any value): 1 equal,
// -1 unequal, 0 nothing.
func knownSameAsFind(w *World, env *pathEnv, fc *ssa.Call, v ssa.Value) int {
	isRes := func(x ssa.Value) bool {
		ex, ok := env.resolve(w.resolveLoad(x)).(*ssa.Extract)
		return ok && ex.Tuple == ssa.Value(fc) && ex.Index == 0
	}
	for cond, t := range env.truth {
		bo, ok := cond.(*ssa.BinOp)
		if !ok || (bo.Op != token.EQL && bo.Op != token.NEQ) {
			continue
		}
		var other ssa.Value
		switch {
		case isRes(bo.X):
			other = bo.Y
		case isRes(bo.Y):
			other = bo.X
		default:
			continue
		}
		if isNilConst(other) {
			continue
		}
		if v != nil && env.resolve(w.resolveLoad(other)) != v {
			continue
		}
		if (bo.Op == token.EQL) == t {
			return 1
		}
		return -1
	}
	return 0
}

// ruleNoReceiveOnAfterFuncTimer (C12.9, =C14.10): the stop-and-drain idiom
// `if !t.Stop() { <-t.C }` belongs to timers made by time.NewTimer. A timer made by
// time.AfterFunc has a nil C: the receive blocks for ever — here inside the retransmission
// callback, with Transaction.mutex and Client.mutexTrMap held, so the first retransmission
// wedges the client's inbound path and every refresh after it.
func ruleNoReceiveOnAfterFuncTimer(c *Ctx, rule string) {
	w := c.W
	c.Rule(rule, "no receive (statement or select case) on the C field of a *time.Timer held in a struct field that is ever assigned the result of time.AfterFunc", 0)
	afterFunc := timeAfterFunc(w)
	// fields assigned an AfterFunc result
	afFields := map[*types.Var]bool{}
	for _, fn := range w.ModFns {
		w.eachInstr(fn, func(in ssa.Instruction) {
			st, ok := in.(*ssa.Store)
			if !ok {
				return
			}
			fa, ok := st.Addr.(*ssa.FieldAddr)
			if !ok {
				return
			}
			if call, _ := callOf(w.resolveLoad(st.Val)); call != nil && call.Call.StaticCallee() == afterFunc {
				afFields[fieldOf(fa)] = true
			}
		})
	}
	n := 0
	timerField := func(ch ssa.Value) *types.Var {
		// ch = *(&t.C) with t = load of a struct field of type *time.Timer
		base, f, ok := fieldLoad(stripIface(ch))
		if !ok || f.Name() != "C" || f.Pkg() == nil || f.Pkg().Path() != "time" {
			return nil
		}
		_, tf, ok := fieldLoad(stripIface(w.resolveLoad(base)))
		if !ok {
			return nil
		}
		return tf
	}
	for _, fn := range w.ModFns {
		w.eachInstr(fn, func(in ssa.Instruction) {
			var chans []ssa.Value
			switch x := in.(type) {
			case *ssa.UnOp:
				if x.Op == token.ARROW {
					chans = append(chans, x.X)
				}
			case *ssa.Select:
				for _, st := range x.States {
					if st.Dir == types.RecvOnly {
						chans = append(chans, st.Chan)
					}
				}
			}
			for _, ch := range chans {
				tf := timerField(ch)
				if tf == nil {
					continue
				}
				n++
				c.Anchor(rule, fname(fn))
				if afFields[tf] {
					c.Bad(rule, fname(fn), "receive on "+tf.Name()+".C", w.instrPos(in), "the timer in field "+tf.Name()+" is made by time.AfterFunc, its C is nil: this receive blocks for ever (the drain idiom is for time.NewTimer timers) — with the locks held here, the first retransmission stalls the inbound path and every later refresh")
				} else {
					c.OK(rule, fname(fn), "receive on "+tf.Name()+".C", w.instrPos(in), "a NewTimer timer")
				}
			}
		})
	}
	if n == 0 {
		c.Triv(rule, "-", "scan", "-", fmt.Sprintf("no receive on a timer field's C (%d fields hold AfterFunc timers)", len(afFields)))
	}
}

// ruleArmAfterFirstWrite (C12.10): Timer.Stop on an AfterFunc timer neither cancels nor waits
// for a callback that has already started. If the timer is armed BEFORE the first write, a
// write that stalls longer than the RTO and then fails races the callback: onRtxTimeout holds
// Client.mutexTrMap, its own write fails, it deletes the entry and blocks in WriteResult on the
// unbuffered channel — PerformTransaction is on its error path waiting for that very lock and
// never receives. So the arming call must lie on the success edge of the first WriteTo.
func ruleArmAfterFirstWrite(c *Ctx, rule string) {
	w := c.W
	c.Rule(rule, "in PerformTransaction (helpers included) every call of Transaction.StartRtxTimer is dominated by the err == nil edge of the socket WriteTo of the request — or is made, like that WriteTo and the clean-up of its failure (the transaction leaves trMap before the lock is released), inside one continuous hold of Client.mutexTrMap, which the callback armed acquires before it looks the transaction up", 1)
	pt := w.Func("turn", "Client", "PerformTransaction")
	start := w.Func("client", "Transaction", "StartRtxTimer")
	c.Anchor(rule, "PerformTransaction")
	n, nLocked := 0, 0
	bad := ""
	for _, fn := range w.helpersOf(pt) {
		w.eachInstr(fn, func(in ssa.Instruction) {
			call, ok := in.(*ssa.Call)
			if !ok || call.Call.StaticCallee() != start {
				return
			}
			n++
			okEdge := false
			for _, f := range w.factsAt(in) {
				if v, isNil, isNF := nilFact(f); isNF && isNil {
					if wc, idx := callOf(v); wc != nil && idx >= 0 && wc.Call.IsInvoke() && wc.Call.Method.Name() == "WriteTo" {
						okEdge = true
					}
				}
			}
			if !okEdge && armedUnderCallbackLock(w, call) {
				okEdge = true
				nLocked++
			}
			if !okEdge {
				bad = w.instrPos(in)
			}
		})
	}
	switch {
	case n == 0:
		c.Bad(rule, fname(pt), "arm", w.pos(pt.Pos()), "PerformTransaction no longer arms the retransmission timer: anchor gone")
	case bad == "" && nLocked > 0:
		c.OK(rule, fname(pt), "arm", w.pos(pt.Pos()), fmt.Sprintf("%d arming call(s); %d armed before the first WriteTo inside one hold of Client.mutexTrMap that lasts until the write's failure has been cleaned up, the lock the timer callback takes before it looks the transaction up", n, nLocked))
	case bad != "":
		c.Bad(rule, fname(pt), "arm", bad, "the retransmission timer is armed without the first write having succeeded: if that write stalls past the RTO and fails, the callback already running deletes the transaction and blocks in WriteResult (nobody receives) with Client.mutexTrMap held, while PerformTransaction waits for that lock on its error path — the transaction, Close and the whole client hang")
	default:
		c.OK(rule, fname(pt), "arm", w.pos(pt.Pos()), fmt.Sprintf("%d arming call(s), each on the success edge of the first WriteTo", n))
	}
}

// armedUnderCallbackLock: the arming call is made with Client.mutexTrMap write-held; the
// request's WriteTo follows in the same hold; on the WriteTo's error edge the transaction is
// deleted from trMap before that hold ends; and the callback armed (a method value of the
// client) has the lock held wherever it touches trMap. A callback that fires while the write
// is still blocked then waits for the lock and finds the outcome already dealt with.
func armedUnderCallbackLock(w *World, arm *ssa.Call) bool {
	const class = "turn.Client.mutexTrMap"
	li := w.lockInfo()
	fn := arm.Parent()
	if !holds(li.mustAt(arm), class, true) {
		return false
	}
	// the WriteTo that follows, in the same hold
	var wr *ssa.Call
	w.eachInstr(fn, func(in ssa.Instruction) {
		if c2, ok := in.(*ssa.Call); ok && c2.Call.IsInvoke() && c2.Call.Method.Name() == "WriteTo" && instrDominates(arm, c2) && wr == nil {
			wr = c2
		}
	})
	if wr == nil || !holds(li.mustAt(wr), class, true) {
		return false
	}
	released := false
	w.eachInstr(fn, func(in ssa.Instruction) {
		if c2, ok := in.(*ssa.Call); ok {
			if lo := w.lockOpOf(&c2.Call); lo != nil && lo.class == class && lo.op == "Unlock" && instrReaches(arm, c2) && instrReaches(c2, wr) {
				released = true
			}
		}
	})
	if released {
		return false
	}
	// failure edge: Delete from trMap with the lock still held, on every path to the exit
	errV := extractOf(wr, 1)
	if errV == nil {
		return false
	}
	isDelete := func(in ssa.Instruction) bool {
		c2, ok := in.(*ssa.Call)
		if !ok || c2.Call.StaticCallee() == nil || c2.Call.StaticCallee().Name() != "Delete" {
			return false
		}
		return strings.Contains(c2.Call.StaticCallee().String(), "TransactionMap") && holds(li.mustAt(c2), class, true)
	}
	okFail := false
	for _, b := range fn.Blocks {
		iff, isIf := b.Instrs[len(b.Instrs)-1].(*ssa.If)
		if !isIf {
			continue
		}
		for i, sb := range b.Succs {
			for _, f := range normCond(iff.Cond, i == 0) {
				if v, isNil, isNF := nilFact(f); isNF && !isNil && w.resolveLoad(v) == errV {
					if ok, _ := mustPassBefore(sb, isDelete, func(*ssa.BasicBlock) bool { return false }); ok {
						okFail = true
					} else {
						return false
					}
				}
			}
		}
	}
	if !okFail {
		return false
	}
	// the callback: a method of the client that touches trMap only with the lock held
	mc, isMC := w.resolveLoad(arm.Call.Args[1]).(*ssa.MakeClosure)
	if !isMC {
		return false
	}
	cb := w.closureBody(mc)
	if cb == nil {
		return false
	}
	touches, locked := 0, true
	w.eachInstr(cb, func(in ssa.Instruction) {
		c2, ok := in.(*ssa.Call)
		if !ok || c2.Call.StaticCallee() == nil || !strings.Contains(c2.Call.StaticCallee().String(), "TransactionMap") {
			return
		}
		touches++
		if !holds(li.mustAt(c2), class, true) {
			locked = false
		}
	})
	return touches > 0 && locked
}

// ruleCompletionByRemover: C12.2 (and, as C18.fd, the same rule under the concurrency property).
func ruleCompletionByRemover(c *Ctx, rule string) {
	w := c.W
	li := w.lockInfo()
	find := w.Func("client", "TransactionMap", "Find")
	del := w.Func("client", "TransactionMap", "Delete")
	writeRes := w.Func("client", "Transaction", "WriteResult")
	const lockTr = "turn.Client.mutexTrMap"
	_, _ = li, lockTr
	c.Rule(rule, "completion belongs to the remover: each call of (*Transaction).WriteResult — followed through forwarding helpers to the function that looks the transaction up — has as receiver result #0 of a trMap.Find(key) made earlier on the path, with trMap.Delete of the same key (or of that transaction's own Key) between the Find and the completion, Client.mutexTrMap held at the Find and at the Delete and no Unlock of it between them", 2)
	{
		isTxOp := func(in ssa.Instruction) bool {
			ci, ok := in.(ssa.CallInstruction)
			if !ok {
				return false
			}
			switch ci.Common().StaticCallee() {
			case find, del, writeRes:
				return true
			}
			if lo := w.lockOpOf(ci.Common()); lo != nil && lo.class == lockTr {
				return true
			}
			return false
		}
		mayTx := w.mayContain(isTxOp)
		mayFind := w.mayContain(func(in ssa.Instruction) bool { return staticCallee(in) == find })
		type site struct {
			root *ssa.Function
			at   ssa.CallInstruction
		}
		var sites []site
		seenSite := map[ssa.CallInstruction]bool{}
		for _, lc := range w.liftCalls(writeRes, mayFind, 4) {
			if !seenSite[lc.at] {
				seenSite[lc.at] = true
				sites = append(sites, site{lc.fn, lc.at})
			}
		}
		type verdict struct {
			n   int
			bad string
		}
		verdicts := map[ssa.CallInstruction]*verdict{}
		type st struct {
			find  *ssa.Call
			delOK bool
			unl   ssa.Instruction
		}
		doneRoot := map[*ssa.Function]bool{}
		exhausted := false
		for _, s0 := range sites {
			root := s0.root
			if doneRoot[root] {
				continue
			}
			doneRoot[root] = true
			isFindResult := func(v ssa.Value, fc *ssa.Call, env *pathEnv) bool {
				if fc == nil {
					return false
				}
				v = env.resolve(w.resolveLoad(v))
				ex, ok := v.(*ssa.Extract)
				if ok && ex.Tuple == fc && ex.Index == 0 {
					return true
				}
				// re-validated: the path learned that the table's entry under the key IS this
				// transaction (cur, ok := Find(tr.Key); ok && cur == tr)
				return knownSameAsFind(w, env, fc, v) == 1
			}
			cfg := &ipCfg[st]{w: w}
			cfg.Inline = func(_ ssa.CallInstruction, h *ssa.Function) bool {
				return w.IsMod[h] && h != find && h != del && h != writeRes && mayTx(h)
			}
			cfg.Return = func(*ssa.Return, st, *pathEnv) {}
			cfg.Step = func(in ssa.Instruction, s st, env *pathEnv, stack []ssa.CallInstruction) st {
				ci, ok := in.(ssa.CallInstruction)
				if !ok {
					return s
				}
				if _, isGo := in.(*ssa.Go); isGo {
					return s
				}
				switch ci.Common().StaticCallee() {
				case find:
					if call, isCall := in.(*ssa.Call); isCall {
						s = st{find: call}
					}
					return s
				case del:
					if s.find != nil {
						k := ci.Common().Args[1]
						fk := s.find.Call.Args[1]
						same := w.sameKey(k, fk) || env.resolve(w.resolveLoad(k)) == env.resolve(w.resolveLoad(fk))
						if !same {
							// the transaction's own key: tr.Key with tr the Find result (C12.4: Insert keys equal Transaction.Key)
							if base, f, isL := fieldLoad(w.resolveLoad(k)); isL && nm(f) == "Key" && isFindResult(base, s.find, env) {
								same = true
							}
						}
						if same {
							s.delOK = true
						}
					}
					return s
				case writeRes:
					top := ci
					if len(stack) > 0 {
						top = stack[0]
					}
					v := verdicts[top]
					if v == nil {
						v = &verdict{}
						verdicts[top] = v
					}
					v.n++
					switch {
					case !isFindResult(ci.Common().Args[0], s.find, env):
						v.bad = "the transaction completed here was not obtained from trMap.Find in this function: " + w.desc(ci.Common().Args[0])
					case !s.delOK:
						v.bad = "the result is written without this function having removed the transaction from the table first: another completer (timer, response, Close) may complete it again"
					default:
						heldF := holds(li.mustAt(s.find), lockTr, true)
						if s.unl != nil || !heldF {
							unlocked := ""
							if s.unl != nil {
								unlocked = w.instrPos(s.unl)
							}
							v.bad = fmt.Sprintf("find→delete is not atomic under Client.mutexTrMap (held at Find=%v, unlocked between at %q): a response, the timer and Close can each complete the same transaction (double completion or send on a closed channel)", heldF, unlocked)
						}
					}
					return s
				}
				if lo := w.lockOpOf(ci.Common()); lo != nil && lo.class == lockTr && lo.op == "Unlock" && s.find != nil && !s.delOK {
					s.unl = in
				}
				return s
			}
			explorePaths(cfg, root, st{})
			if cfg.Exhausted {
				exhausted = true
			}
		}
		for _, s0 := range sites {
			fn := s0.root
			c.Anchor(rule, fname(fn)+"@"+anchorOrd(c, rule, fname(fn)))
			pos := w.instrPos(s0.at)
			v := verdicts[s0.at]
			switch {
			case exhausted:
				c.Bad(rule, fname(fn), "WriteResult", pos, "undecided: path exploration exceeded its budget")
			case v == nil:
				c.Bad(rule, fname(fn), "WriteResult", pos, "undecided: no explored path of "+fname(fn)+" reaches this completion")
			case v.bad != "":
				c.Bad(rule, fname(fn), "WriteResult", pos, v.bad)
			default:
				c.OK(rule, fname(fn), "WriteResult", pos, fmt.Sprintf("Find and Delete of the same key inside one hold of Client.mutexTrMap on each of the %d paths to the completion", v.n))
			}
		}
	}
}
