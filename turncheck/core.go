package main

// Obligations, floors, known findings, evidence and violation files.

import (
	"encoding/json"
	"fmt"
	"os"
	"os/exec"
	"path/filepath"
	"sort"
	"strings"
	"time"

	"golang.org/x/tools/go/ssa"
)

type Obligation struct {
	Rule       string   `json:"rule"`
	Key        string   `json:"key"`
	Func       string   `json:"function"`
	Construct  string   `json:"construct"`
	Pos        string   `json:"position"`
	Status     string   `json:"status"` // discharged | violated | undecided
	Reason     string   `json:"reason"`
	Nontrivial bool     `json:"nontrivial"`
	Path       []string `json:"path,omitempty"`
	Config     string   `json:"config,omitempty"`
}

type ruleInfo struct {
	ID    string `json:"id"`
	Text  string `json:"text"`
	Floor int    `json:"floor"`
	Count int    `json:"instances"`
	// anchors (function × role) seen
	Anchors []string `json:"anchors,omitempty"`
}

type Ctx struct {
	W      *World
	Prop   string
	Tier   string
	Config string
	Obls   []*Obligation
	Rules  map[string]*ruleInfo
	order  []string
	ord    map[string]int
	Funcs  map[string]bool // functions analysed
	Sites  int
	Notes  []string
}

func newCtx(w *World, prop, tier, config string) *Ctx {
	return &Ctx{W: w, Prop: prop, Tier: tier, Config: config, Rules: map[string]*ruleInfo{}, ord: map[string]int{}, Funcs: map[string]bool{}}
}

// Rule declares a rule (its text goes into the evidence) with the floor of anchor constructs.
func (c *Ctx) Rule(id, text string, floor int) {
	if _, ok := c.Rules[id]; !ok {
		c.Rules[id] = &ruleInfo{ID: id, Text: text, Floor: floor}
		c.order = append(c.order, id)
	}
}

func (c *Ctx) add(rule, fn, construct, pos, status, reason string, nontrivial bool, path []string) *Obligation {
	if _, ok := c.Rules[rule]; !ok {
		failf("internal: obligation for undeclared rule %s", rule)
	}
	base := rule + "|" + fn + "|" + construct
	n := c.ord[base]
	c.ord[base] = n + 1
	o := &Obligation{Rule: rule, Key: fmt.Sprintf("%s#%d", base, n), Func: fn, Construct: construct, Pos: pos,
		Status: status, Reason: reason, Nontrivial: nontrivial, Path: path, Config: c.Config}
	c.Obls = append(c.Obls, o)
	c.Rules[rule].Count++
	c.Funcs[fn] = true
	return o
}

func (c *Ctx) OK(rule, fn, construct, pos, reason string) {
	c.add(rule, fn, construct, pos, "discharged", reason, true, nil)
}

// Triv: discharged by a constant comparison / table lookup (not counted as non-trivial)
func (c *Ctx) Triv(rule, fn, construct, pos, reason string) {
	c.add(rule, fn, construct, pos, "discharged", reason, false, nil)
}

func (c *Ctx) Bad(rule, fn, construct, pos, reason string, path ...string) {
	c.add(rule, fn, construct, pos, "violated", reason, true, path)
}

func (c *Ctx) Undecided(rule, fn, construct, pos, reason string) {
	c.add(rule, fn, construct, pos, "undecided", reason, true, nil)
}

func (c *Ctx) Anchor(rule, anchor string) {
	r := c.Rules[rule]
	for _, a := range r.Anchors {
		if a == anchor {
			return
		}
	}
	r.Anchors = append(r.Anchors, anchor)
}

// AnchorUp records the anchor construct fn+suffix and, when fn is an unexported helper, the
// same construct for every function it is reached from through unexported helpers: call sites
// that a refactoring gathered into one shared helper (ownedAllocation(req, user)) keep counting
// once per function that reaches them, as they did when each function had its own copy.
func (c *Ctx) AnchorUp(rule string, fn *ssa.Function, suffix string) {
	c.Anchor(rule, fname(fn)+suffix)
	for _, up := range c.W.helperCallers(fn, 4) {
		c.Anchor(rule, fname(up)+suffix)
	}
}

// helperCallers: the functions fn is statically called from, through unexported named helpers.
func (w *World) helperCallers(fn *ssa.Function, depth int) []*ssa.Function {
	var out []*ssa.Function
	seen := map[*ssa.Function]bool{fn: true}
	var up func(f *ssa.Function, d int)
	up = func(f *ssa.Function, d int) {
		if d <= 0 || f.Parent() != nil || f.Object() == nil || f.Object().Exported() {
			return
		}
		for _, cs := range w.callsTo(f) {
			g := cs.Parent()
			if g == nil || g.Synthetic != "" || seen[g] {
				continue
			}
			seen[g] = true
			out = append(out, g)
			up(g, d-1)
		}
	}
	up(fn, depth)
	return out
}

// checkFloors turns a rule whose anchor constructs fell below the floor into a violation.
func (c *Ctx) checkFloors() {
	for _, id := range c.order {
		r := c.Rules[id]
		n := len(r.Anchors)
		if n == 0 {
			n = r.Count
		}
		if n < r.Floor {
			c.add(id, "-", "floor", "-", "violated",
				fmt.Sprintf("rule matched %d anchor constructs %v, below the floor %d confirmed on the reference tree: an anchor construct is gone, the rule would pass vacuously", n, r.Anchors, r.Floor), true, nil)
			c.Rules[id].Count--
		}
	}
}

// ---------------------------------------------------------------------------------

type knownFile struct {
	Findings []struct {
		Property string `json:"property"`
		Key      string `json:"key"`
		What     string `json:"what"`
	} `json:"findings"`
	Fixed []struct {
		Property string `json:"property"`
		Commit   string `json:"commit"`
		Key      string `json:"key"`
		What     string `json:"what"`
	} `json:"fixed"`
}

func loadKnown(verifDir string) map[string]string {
	out := map[string]string{}
	b, err := os.ReadFile(filepath.Join(verifDir, "known_findings.json"))
	if err != nil {
		return out
	}
	var kf knownFile
	if err := json.Unmarshal(b, &kf); err != nil {
		failf("known_findings.json: %v", err)
	}
	for _, f := range kf.Findings {
		out[f.Property+"\x00"+f.Key] = f.What
	}
	return out
}

type evidence struct {
	PropertyID  string         `json:"property_id"`
	Tier        string         `json:"tier"`
	Seed        int            `json:"seed"`
	Level       string         `json:"level"`
	Coverage    map[string]any `json:"coverage"`
	Assumptions []string       `json:"assumptions"`
	WallS       float64        `json:"wall_s"`
	Violations  int            `json:"violations"`
}

var commonAssumptions = []string{
	"go/types, go/ssa and the CHA+VTA call graph of golang.org/x/tools v0.29.0 are correct; the call graph over-approximates calls inside the module",
	"function values held in Manager fields and operator callbacks (AuthHandler, PermissionHandler, EventHandler, QuotaHandler) are unknown code: they are treated as having unknown effects, never as absent, and are assumed not to re-enter the server",
	"the Go runtime panics only where the language specification says so; sync, time.Timer, hmac.Equal, encoding/binary, net.PacketConn.ReadFrom (n <= len(buf)) behave as documented",
	"a fact established by a guard (a permission exists, the request was authenticated) is evaluated at the guard; interleavings between guard and use are outside static reach and are not claimed",
	"nothing in pion/turn is executed: every verdict is derived from the type-checked SSA form of the current working tree",
}

func gitInfo(dir string) (string, []string) {
	head, _ := exec.Command("git", "-C", dir, "rev-parse", "HEAD").Output()
	st, _ := exec.Command("git", "-C", dir, "status", "--porcelain").Output()
	var dirty []string
	for _, l := range strings.Split(strings.TrimSpace(string(st)), "\n") {
		if l != "" {
			dirty = append(dirty, l)
		}
	}
	return strings.TrimSpace(string(head)), dirty
}

type runResult struct {
	ctxs     []*Ctx
	selftest map[string]any
}

func finish(verifDir, prop, tier string, seed int, t0 time.Time, rr *runResult, explanation string, notCovered string) int {
	known := loadKnown(verifDir)
	var all []*Obligation
	rules := []*ruleInfo{}
	funcs := map[string]bool{}
	configs := []string{}
	var notes []string
	for i, c := range rr.ctxs {
		configs = append(configs, c.Config)
		for f := range c.Funcs {
			funcs[f] = true
		}
		notes = append(notes, c.Notes...)
		if i == 0 {
			for _, id := range c.order {
				rules = append(rules, c.Rules[id])
			}
			all = append(all, c.Obls...)
			continue
		}
		// further configurations: only record obligations that differ from the first config
		have := map[string]string{}
		for _, o := range rr.ctxs[0].Obls {
			have[o.Key] = o.Status
		}
		for _, o := range c.Obls {
			if st, ok := have[o.Key]; !ok || st != o.Status {
				all = append(all, o)
			}
		}
	}
	violDir := filepath.Join(verifDir, "evidence", "violations")
	os.MkdirAll(violDir, 0o755)
	old, _ := filepath.Glob(filepath.Join(violDir, prop+"-*.json"))
	for _, f := range old {
		os.Remove(f)
	}
	head, dirty := gitInfo(rr.ctxs[0].W.Dir)
	nviol, nknown, ndis, nnontriv := 0, 0, 0, 0
	distinct := map[string]bool{}
	var samples []any
	perRule := map[string]int{}
	for _, o := range all {
		if o.Status == "discharged" {
			ndis++
			if o.Nontrivial {
				k := o.Rule + "|" + o.Func + "|" + o.Construct
				if !distinct[k] {
					distinct[k] = true
					nnontriv++
				}
			}
			if o.Nontrivial && perRule[o.Rule] < 2 && len(samples) < 60 {
				perRule[o.Rule]++
				samples = append(samples, map[string]any{"rule": o.Rule, "key": o.Key, "at": o.Pos, "status": o.Status, "why": o.Reason})
			}
			continue
		}
		if what, ok := known[prop+"\x00"+o.Key]; ok {
			nknown++
			fmt.Printf("KNOWN-FINDING: property=%s %s (%s) %s\n", prop, o.Key, o.Pos, what)
			samples = append(samples, map[string]any{"rule": o.Rule, "key": o.Key, "at": o.Pos, "status": "known-finding", "why": o.Reason})
			continue
		}
		nviol++
		path := filepath.Join(violDir, fmt.Sprintf("%s-%d.json", prop, nviol))
		vb, _ := json.MarshalIndent(map[string]any{
			"property": prop, "rule": o.Rule, "key": o.Key, "function": o.Func, "position": o.Pos, "instance": o.Construct,
			"status": o.Status, "explanation": o.Reason, "path": o.Path, "config": o.Config,
			"tree": map[string]any{"head": head, "dirty": dirty},
		}, "", " ")
		os.WriteFile(path, vb, 0o644)
		fmt.Printf("  %s %s [%s] %s: %s\n", strings.ToUpper(o.Status), o.Rule, o.Pos, o.Key, o.Reason)
		for _, p := range o.Path {
			fmt.Printf("      %s\n", p)
		}
		fmt.Printf("VIOLATION property=%s replay=%s\n", prop, path)
		samples = append(samples, map[string]any{"rule": o.Rule, "key": o.Key, "at": o.Pos, "status": o.Status, "why": o.Reason})
	}
	fl := []string{}
	for f := range funcs {
		fl = append(fl, f)
	}
	sort.Strings(fl)
	if len(samples) == 0 {
		samples = append(samples, "no obligations")
	}
	w := rr.ctxs[0].W
	cov := map[string]any{
		"explanation":          explanation,
		"not_covered":          notCovered,
		"evaluations":          len(all),
		"distinct_nontrivial":  nnontriv,
		"rule":                 "one evaluation = one obligation (rule instantiated at one construct of the current tree, keyed rule|function|construct#ordinal); non-trivial = its discharge needed a path, flow, lockset or interval argument over the SSA form rather than a constant/table comparison; distinct = distinct rule|function|construct",
		"obligations":          len(all),
		"discharged":           ndis,
		"known_findings":       nknown,
		"samples":              samples,
		"rules":                rules,
		"functions_analysed":   fl,
		"packages_loaded":      w.NPkgs,
		"functions_in_program": w.NFuncs,
		"module_functions":     len(w.ModFns),
		"configurations":       configs,
		"tree":                 map[string]any{"head": head, "dirty": dirty},
		"checker_cmd":          fmt.Sprintf("bin/turncheck -prop %s -tier %s", prop, tier),
		"trusted_base":         []string{"go/types", "go/ssa", "golang.org/x/tools callgraph cha+vta", "turncheck rule tables"},
		"exhaustive":           true,
		"notes":                notes,
	}
	if rr.selftest != nil {
		cov["selftest"] = rr.selftest
	}
	ev := evidence{PropertyID: prop, Tier: tier, Seed: seed, Level: "other", Coverage: cov, Assumptions: commonAssumptions,
		WallS: time.Since(t0).Seconds(), Violations: nviol}
	eb, _ := json.MarshalIndent(ev, "", " ")
	if err := os.WriteFile(filepath.Join(verifDir, "evidence", prop+".json"), eb, 0o644); err != nil {
		fmt.Fprintln(os.Stderr, "cannot write evidence:", err)
		return 2
	}
	fmt.Printf("%s %s: %d obligations, %d discharged, %d known findings, %d violations; %d rules; %d functions; %.1fs\n",
		prop, tier, len(all), ndis, nknown, nviol, len(rules), len(fl), time.Since(t0).Seconds())
	if nviol > 0 {
		return 1
	}
	return 0
}
