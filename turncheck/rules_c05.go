package main

import (
	"fmt"
	"go/token"
	"go/types"
	"strings"

	"golang.org/x/tools/go/ssa"
)

func init() {
	register(&propDef{
		ID:        "C05",
		Title:     "Relayed payloads arrive intact, exactly once, with truthful peer attribution",
		Technique: "payload and attribution provenance (SSA value identity from the read to the write), short-write discipline pattern check, truncation-guard sibling rule over all datagram read loops, aliasing lint on queued inbound buffers",
		Explanation: "C05.1 payload provenance at the four forwarding sites: peer→client forwards buf[:n] with buf the buffer and n result #0 of the same relay ReadFrom (as ChannelData.Data resp. the DATA attribute); client→peer forwards the decoded DATA attribute value resp. channelData.Data unmodified; " +
			"C05.2 attribution: XOR-PEER-ADDRESS IP/Port are the fields of the UDP source of that same read, ChannelData.Number is the Number of the binding found for that same source; " +
			"C05.3 the count returned by alloc.WriteTo is compared with len of the very payload written and a mismatch returns a non-nil error; " +
			"C05.4 truncation guard (sibling rule): every PacketConn.ReadFrom into a buffer smaller than the largest UDP datagram is followed, before the bytes are used, by a test establishing n < len(buffer), so that a datagram that filled the buffer is dropped rather than forwarded cut; " +
			"C05.5 inbound payloads queued for the application never alias the reusable read buffer: what UDPConn.HandleInbound enqueues is a fresh copy; " +
			"C05.6 the stream framer's size arithmetic cannot wrap (shared rule C09.1 on the framing functions); " +
			"C05.8 (=C09.3/C10.1p) the stream de-framer returns exactly the bytes it buffered for the frame and advances its own buffer by that amount; " +
			"C05.7 the client writes the complete encoded ChannelData (header, payload, padding) of a literal built from the caller's payload and channel number; " +
			"C05.9 a receive loop's reused buffer does not outlive the iteration: no alias of it is handed to a goroutine, sent on a channel or captured. C05.10 (=C07.10) the ChannelData path and the relay loop refuse only for the reasons the property names (closed refusal sets); C05.11 (=C09.12) a deadline armed on a connection is lifted again on every path. C05.12 nobody appends onto a shortened view of bytes it was handed (the relay read buffer is written by the read alone). C05.13 outside package proto ChannelData frames are produced by Encode only (the padded encoder of C11.3).",
		NotCovered: "exactly-once delivery, byte equality beyond provenance, ChannelData padding arithmetic modulo 4 (see C11), duplication by the network.",
		Run:        runC05,
	})
}

// variadicElems: the values stored into the backing array of a variadic slice.
func variadicElems(sl ssa.Value) []ssa.Value {
	s, ok := sl.(*ssa.Slice)
	if !ok {
		return nil
	}
	arr, ok := s.X.(*ssa.Alloc)
	if !ok {
		return nil
	}
	var out []ssa.Value
	for _, r := range *arr.Referrers() {
		ia, ok := r.(*ssa.IndexAddr)
		if !ok {
			continue
		}
		for _, r2 := range *ia.Referrers() {
			if st, ok := r2.(*ssa.Store); ok && st.Addr == ssa.Value(ia) {
				out = append(out, st.Val)
			}
		}
	}
	return out
}

// isReadSlice: v == buf[:n] with buf the argument and n result #0 of read.
func (w *World) isReadSlice(v ssa.Value, read *ssa.Call) bool {
	v = stripIface(v)
	// (the slice may have been made where the read is and travel in a by-value struct)
	if r := stripIface(w.resolveLoad(v)); r != v {
		if _, isP := r.(*ssa.Parameter); !isP {
			v = r
		}
	}
	sl, ok := under(v).(*ssa.Slice)
	if !ok || sl.Low != nil || sl.Max != nil {
		return false
	}
	hc, hi := callOf(sl.High)
	if hc != read {
		hc, hi = w.realCallOf(sl.High)
	}
	if hc == read && hi == 0 && w.sameKey(sl.X, read.Call.Args[0]) {
		return true
	}
	// a slice made inside the stage that did the read: compare there
	if vv, isV := v.(*virtVal); isV && vv.orig != nil {
		if sl2, ok := vv.orig.(*ssa.Slice); ok && sl2.Low == nil && sl2.Max == nil {
			hc2, hi2 := callOf(sl2.High)
			return hc2 == read && hi2 == 0 && w.sameKey(sl2.X, read.Call.Args[0])
		}
	}
	return false
}

// realCallOf: callOf, looking through values expressed at a helper's call site back to the
// helper's own call instruction.
func (w *World) realCallOf(v ssa.Value) (*ssa.Call, int) {
	v = stripIface(w.resolveLoad(v))
	if c, i := callOf(v); c != nil {
		if rc, ok := w.realOf(c).(*ssa.Call); ok {
			return rc, i
		}
		return c, i
	}
	if c, i := callOf(under(v)); c != nil {
		return c, i
	}
	return nil, -1
}

func runC05(c *Ctx) {
	w := c.W
	// ---- C05.1 / C05.2 peer -> client
	c.Rule("C05.1", "payload provenance: peer→client writes carry buf[:n] of the relay read that produced the authorised source (ChannelData literal Data, encoded by Encode on that same literal; DATA attribute in stun.Build); client→peer alloc.WriteTo payloads are the decoded DATA attribute storage resp. the Data field of the decoded ChannelData", 4)
	c.Rule("C05.2", "attribution: the XOR-PEER-ADDRESS passed to stun.Build takes IP and Port from the *net.UDPAddr asserted from the source of the same read; the ChannelData literal's Number is the Number field of the binding GetChannelByAddr returned for that source", 2)
	pch := w.Func("allocation", "Allocation", "packetConnHandler")
	getChanA := w.Func("allocation", "Allocation", "GetChannelByAddr")
	turn := w.Field("allocation", "Allocation", "TurnSocket")
	nSites := 0
	w.eachInstrDeep(pch, func(in ssa.Instruction) {
		call, ok := in.(*ssa.Call)
		if !ok || !call.Call.IsInvoke() || call.Call.Method.Name() != "WriteTo" {
			return
		}
		if _, f, isL := fieldLoad(call.Call.Value); !isL || f != turn {
			return
		}
		nSites++
		pos := w.instrPos(in)
		// the read of this iteration
		var read *ssa.Call
		w.eachInstrDeep(pch, func(in2 ssa.Instruction) {
			if c2, ok := in2.(*ssa.Call); ok && c2.Call.IsInvoke() && c2.Call.Method.Name() == "ReadFrom" {
				if _, f, isL := fieldLoad(c2.Call.Value); isL && f.Name() == "relayPacketConn" {
					read = c2
				}
			}
		})
		if read == nil {
			c.Bad("C05.1", fname(pch), "peer→client payload", pos, "no relay ReadFrom found")
			return
		}
		raw := call.Call.Args[0]
		rb, rf, isRaw := fieldLoad(raw)
		if !isRaw || rf.Name() != "Raw" {
			c.Bad("C05.1", fname(pch), "peer→client payload", pos, "written bytes "+w.key(raw)+" are not the Raw of an encoded message")
			return
		}
		if al, isAl := rb.(*ssa.Alloc); isAl && namedOf(al.Type()) != nil && namedOf(al.Type()).Obj().Name() == "ChannelData" {
			c.Anchor("C05.1", "ChannelData to client")
			c.Anchor("C05.2", "channel number")
			lit := w.literalOf(al)
			okData := lit.fields["Data"] != nil && w.isReadSlice(lit.fields["Data"], read)
			// Encode called on the literal before the write
			okEnc := false
			for _, r := range *al.Referrers() {
				if ec, ok := r.(*ssa.Call); ok && ec.Call.StaticCallee() != nil && ec.Call.StaticCallee().Name() == "Encode" && instrReaches(ec, call) {
					okEnc = true
				}
			}
			if okData && okEnc {
				c.OK("C05.1", fname(pch), "ChannelData payload", pos, "Data = buffer[:n] of the same read, encoded by Encode() on that literal, Raw written")
			} else {
				c.Bad("C05.1", fname(pch), "ChannelData payload", pos, fmt.Sprintf("ChannelData toward the client does not carry exactly buffer[:n] of the read (Data ok=%v, Encode before write=%v)", okData, okEnc))
			}
			num := lit.fields["Number"]
			g := w.guardedBy(in, getChanA, -1, "nonnil", func(g *ssa.Call) bool {
				sc, si := w.realCallOf(g.Call.Args[1])
				return sc == read && si == 1
			})
			if g != nil && num != nil && w.isFieldLoadOf(num, g, "Number") {
				c.OK("C05.2", fname(pch), "ChannelData number", pos, "Number = GetChannelByAddr(src of this read).Number")
			} else {
				c.Bad("C05.2", fname(pch), "ChannelData number", pos, "the channel number sent to the client is not the number bound to the datagram's source address")
			}
			return
		}
		// Data indication: Raw of result #0 of stun.Build(...)
		bc, bi := callOf(rb)
		if bc == nil || bi != 0 || bc.Call.StaticCallee() == nil || bc.Call.StaticCallee().Name() != "Build" {
			c.Bad("C05.1", fname(pch), "peer→client payload", pos, "written bytes are neither an encoded ChannelData literal nor a message built by stun.Build")
			return
		}
		c.Anchor("C05.1", "Data indication to client")
		c.Anchor("C05.2", "peer address")
		okData, okPeer := false, false
		peerWhy := "no PeerAddress among the attributes"
		for _, e := range variadicElems(bc.Call.Args[0]) {
			ev := e
			if mi, isMI := ev.(*ssa.MakeInterface); isMI {
				ev = mi.X
			}
			if n := namedOf(ev.Type()); n != nil && n.Obj().Name() == "Data" {
				if w.isReadSlice(stripConv(ev), read) {
					okData = true
				}
			}
			ev = stripIface(e)
			if n := namedOf(ev.Type()); n != nil && n.Obj().Name() == "PeerAddress" {
				lit := w.literalOf(ev)
				if lit == nil {
					peerWhy = "PeerAddress is not a literal"
					continue
				}
				ib, ifl, ok1 := fieldLoad(lit.fields["IP"])
				pb, pfl, ok2 := fieldLoad(lit.fields["Port"])
				if ok1 && ok2 && ifl.Name() == "IP" && pfl.Name() == "Port" && ib == pb {
					// ib = assert[*net.UDPAddr](src)#0
					if ex, isEx := ib.(*ssa.Extract); isEx {
						if ta, isTA := ex.Tuple.(*ssa.TypeAssert); isTA {
							sc, si := w.realCallOf(ta.X)
							if sc == read && si == 1 {
								okPeer = true
							}
						}
					}
				}
				if !okPeer {
					peerWhy = "PeerAddress IP/Port are " + w.key(lit.fields["IP"]) + " / " + w.key(lit.fields["Port"]) + ", not the fields of this read's source address"
				}
			}
		}
		if okData {
			c.OK("C05.1", fname(pch), "Data indication payload", pos, "DATA = buffer[:n] of the same read")
		} else {
			c.Bad("C05.1", fname(pch), "Data indication payload", pos, "the Data indication does not carry exactly buffer[:n] of the read")
		}
		if okPeer {
			c.OK("C05.2", fname(pch), "Data indication peer", pos, "XOR-PEER-ADDRESS = IP/Port of src.(*net.UDPAddr) of the same read")
		} else {
			c.Bad("C05.2", fname(pch), "Data indication peer", pos, peerWhy)
		}
	})
	if nSites < 2 {
		c.Bad("C05.1", fname(pch), "peer→client sites", w.pos(pch.Pos()), fmt.Sprintf("only %d client-socket writes left in packetConnHandler", nSites))
	}
	// client -> peer
	sink := w.Func("allocation", "Allocation", "WriteTo")
	for _, cs := range w.callsTo(sink) {
		fn := cs.Parent()
		pos := w.instrPos(cs)
		p := cs.Common().Args[1]
		switch nm(fn) {
		case "handleSendIndication":
			c.Anchor("C05.1", "Send to peer")
			// p = *local proto.Data whose storage was filled by Data.GetFrom(stunMsg)==nil
			u, ok := stripIface(p).(*ssa.UnOp)
			good := false
			if ok && u.Op == token.MUL {
				for _, f := range w.factsAt(cs) {
					if x, isNil, isNF := nilFact(f); isNF && isNil {
						if gc, _ := callOf(x); gc != nil && gc.Call.StaticCallee() != nil && gc.Call.StaticCallee().Name() == "GetFrom" && gc.Call.Args[0] == u.X && w.sameKey(gc.Call.Args[1], fn.Params[1]) {
							if n := namedOf(u.X.Type()); n != nil && n.Obj().Name() == "Data" {
								good = true
							}
						}
					}
				}
				if al, isAl := u.X.(*ssa.Alloc); isAl && good {
					if ok2, at := w.noStoreBetweenAny(al, cs); !ok2 {
						good = false
						_ = at
					}
				}
			}
			if good {
				c.OK("C05.1", fname(fn), "Send payload", pos, "payload is the DATA attribute storage decoded from this request, unmodified")
			} else {
				c.Bad("C05.1", fname(fn), "Send payload", pos, "payload "+w.key(p)+" is not the unmodified DATA attribute of this request")
			}
		case "handleChannelData":
			c.Anchor("C05.1", "ChannelData to peer")
			if w.isFieldLoadOf(p, fn.Params[1], "Data") {
				c.OK("C05.1", fname(fn), "ChannelData payload", pos, "payload is channelData.Data of the decoded message")
			} else {
				c.Bad("C05.1", fname(fn), "ChannelData payload", pos, "payload "+w.key(p)+" is not channelData.Data")
			}
		default:
			c.Bad("C05.1", fname(fn), "relay write", pos, "unexpected caller of (*Allocation).WriteTo: payload provenance unknown")
		}
	}

	// ---- C05.3
	c.Rule("C05.3", "short-write discipline: for every (*Allocation).WriteTo call, result #0 is compared (!=) with len() of the very payload argument, and the not-equal edge returns a non-nil error", 2)
	for _, cs := range w.callsTo(sink) {
		fn := cs.Parent()
		call, _ := cs.(*ssa.Call)
		c.Anchor("C05.3", fname(fn))
		ok := false
		w.eachInstr(fn, func(in ssa.Instruction) {
			iff, isIf := in.(*ssa.If)
			if !isIf {
				return
			}
			for _, f := range normCond(iff.Cond, true) {
				if f.Op != "==" || f.Truth {
					continue // want: true edge means "not equal"
				}
				for _, pair := range [][2]ssa.Value{{f.X, f.Y}, {f.Y, f.X}} {
					nc, ni := callOf(pair[0])
					lc, _ := pair[1].(*ssa.Call)
					if nc != call || ni != 0 || lc == nil {
						continue
					}
					if b, isB := lc.Call.Value.(*ssa.Builtin); !isB || b.Name() != "len" || !w.sameKey(lc.Call.Args[0], cs.Common().Args[1]) {
						continue
					}
					// true successor returns non-nil error
					tb := in.Block().Succs[0]
					if ret, isR := tb.Instrs[len(tb.Instrs)-1].(*ssa.Return); isR && len(ret.Results) > 0 && !isNilConst(w.resolveLoad(ret.Results[len(ret.Results)-1])) {
						ok = true
					}
				}
			}
		})
		if ok {
			c.OK("C05.3", fname(fn), "short write", w.instrPos(cs), "n != len(payload) returns an error")
		} else {
			c.Bad("C05.3", fname(fn), "short write", w.instrPos(cs), "the number of bytes written to the peer is not checked against len of the payload (a short write would pass as success)")
		}
	}

	ruleTruncationGuard(c, "C05.4")
	ruleInboundCopy(c, "C05.5")
	// frame sizes computed in a narrow type wrap for large payloads: the frame is then cut or
	// merged with its neighbours
	{
		fns := []*ssa.Function{w.Func("proto", "", "consumeSingleTURNFrame"), w.Func("proto", "STUNConn", "ReadFrom"),
			w.Func("proto", "ChannelData", "Encode"), w.Func("proto", "ChannelData", "Decode"), w.Func("proto", "ChannelData", "WriteHeader")}
		seen := map[*ssa.Function]bool{}
		var all []*ssa.Function
		for _, f := range fns {
			for _, h := range w.helpersOf(f) {
				if !seen[h] {
					seen[h] = true
					all = append(all, h)
				}
			}
			// unexported helpers with several callers (frame-size functions)
			w.eachCallThrough(f, 2, func(call *ssa.Call, _ func(ssa.Value) ssa.Value) {
				if h := call.Call.StaticCallee(); h != nil && w.IsMod[h] && len(h.Blocks) > 0 && !seen[h] && h.Object() != nil && !h.Object().Exported() {
					seen[h] = true
					all = append(all, h)
				}
			})
		}
		ruleNoWrap(c, "C05.6", all, 1)
	}

	// ---- C05.8 the stream de-framer hands out what it buffered, from its own storage
	ruleProgress(c, "C05.8")
	ruleReadBufferStaysInIteration(c, "C05.9")
	ruleChannelPathRefusals(c, "C05.10")
	ruleDeadlineSites(c, "C05.11")
	ruleNoAppendOntoCallersBytes(c, "C05.12")
	ruleOnlyEncodeFrames(c, "C05.13")

	// ---- C05.7 client → server ChannelData is written whole
	c.Rule("C05.7", "client ChannelData: what (*UDPConn).sendChannelData writes to the server is the complete Raw of a ChannelData literal {Data: the caller's payload, Number: the caller's channel number} on which Encode() was called — not a slice of it (the padding delimits the message on a stream transport, and the client cannot tell the transport from the server address)", 1)
	{
		fn := w.Func("client", "UDPConn", "sendChannelData")
		c.Anchor("C05.7", "sendChannelData")
		n := 0
		bad := ""
		w.eachInstrDeep(fn, func(in ssa.Instruction) {
			call, ok := in.(*ssa.Call)
			if !ok || !call.Call.IsInvoke() || call.Call.Method.Name() != "WriteTo" {
				return
			}
			n++
			arg := w.resolveLoad(call.Call.Args[0])
			base, f, isL := fieldLoad(arg)
			if !isL || f.Name() != "Raw" {
				bad = "the bytes written at " + w.instrPos(in) + " are " + w.desc(call.Call.Args[0]) + ", not the whole Raw of the encoded ChannelData: a re-sliced or alternative buffer drops the padding / header the receiver's framer relies on"
				return
			}
			al, _ := w.resolveLoad(base).(*ssa.Alloc)
			if al == nil {
				al, _ = base.(*ssa.Alloc)
			}
			if al == nil {
				bad = "the ChannelData written at " + w.instrPos(in) + " is not a local literal"
				return
			}
			lit := w.literalOf(al)
			okData := lit != nil && lit.fields["Data"] != nil && w.sameKey(lit.fields["Data"], fn.Params[1])
			okNum := false
			if lit != nil && lit.fields["Number"] != nil {
				okNum = w.sameKey(stripIntConv(lit.fields["Number"]), fn.Params[2])
			}
			enc := w.Func("proto", "ChannelData", "Encode")
			okEnc := false
			w.eachInstr(call.Parent(), func(i2 ssa.Instruction) {
				if c2, ok := i2.(*ssa.Call); ok && c2.Call.StaticCallee() == enc && len(c2.Call.Args) > 0 && (c2.Call.Args[0] == ssa.Value(al) || w.sameKey(c2.Call.Args[0], al)) && instrDominates(c2, call) {
					okEnc = true
				}
			})
			if !(okData && okNum && okEnc) {
				bad = fmt.Sprintf("the ChannelData written at %s is not {Data: payload (%v), Number: channel (%v)} encoded by Encode() before the write (%v)", w.instrPos(in), okData, okNum, okEnc)
			}
		})
		if bad == "" && n == 1 {
			c.OK("C05.7", fname(fn), "sendChannelData", w.pos(fn.Pos()), "writes chData.Raw of {Data: data, Number: chNum} after Encode()")
		} else {
			if bad == "" {
				bad = fmt.Sprintf("%d writes to the server (exactly one expected)", n)
			}
			c.Bad("C05.7", fname(fn), "sendChannelData", w.pos(fn.Pos()), bad)
		}
	}
}

// noStoreBetweenAny: the local is not stored to between its (last) filling call and `to`.
func (w *World) noStoreBetweenAny(al *ssa.Alloc, to ssa.Instruction) (bool, string) {
	for _, r := range *al.Referrers() {
		if st, ok := r.(*ssa.Store); ok && st.Addr == ssa.Value(al) && !isZeroInit(st) && instrReaches(st, to) {
			// a store that can precede the write and is not the declaration's zero value
			// is only harmful if it comes after the decode; the decode dominates `to`, so any
			// store that reaches `to` and is reached from a GetFrom call is in between
			for _, r2 := range *al.Referrers() {
				if c2, ok := r2.(*ssa.Call); ok && c2.Call.StaticCallee() != nil && c2.Call.StaticCallee().Name() == "GetFrom" && instrReaches(c2, st) {
					return false, w.instrPos(st)
				}
			}
		}
	}
	return true, ""
}

func isZeroInit(st *ssa.Store) bool {
	if c, ok := st.Val.(*ssa.Const); ok {
		return c.Value == nil
	}
	return false
}

// ---------------------------------------------------------------------------------

const maxUDPPayload = 65507

func ruleTruncationGuard(c *Ctx, rule string) {
	w := c.W
	c.Rule(rule, "truncation guard: for every invoke of net.PacketConn.ReadFrom(buf) in the module whose buffer length is not provably ≥ 65507, every use of buf[:n] is dominated by a fact establishing n < len(buf) (n < L with L the buffer's length expression, or n ≤ K with constant K < constant length)", 2)
	for _, fn := range w.ModFns {
		w.eachInstr(fn, func(in ssa.Instruction) {
			read, ok := in.(*ssa.Call)
			if !ok || !read.Call.IsInvoke() || read.Call.Method.Name() != "ReadFrom" {
				return
			}
			if !strings.HasSuffix(read.Call.Value.Type().String(), "net.PacketConn") {
				return
			}
			buf := read.Call.Args[0]
			// length of the buffer
			var lenConst int64 = -1
			var lenExpr ssa.Value
			_, _, hi := sliceRange(buf)
			if hi >= 0 {
				lenConst = hi
			} else if ms, isMS := stripIface(w.resolveLoad(buf)).(*ssa.MakeSlice); isMS {
				if k, isC := constInt(ms.Len); isC {
					lenConst = k
				} else {
					lenExpr = ms.Len
				}
			}
			name := "ReadFrom"
			if lenConst >= maxUDPPayload {
				c.Triv(rule, fname(fn), name, w.instrPos(in), fmt.Sprintf("buffer of %d bytes holds any UDP datagram", lenConst))
				return
			}
			if lenConst < 0 && lenExpr == nil {
				if _, isParam := stripIface(buf).(*ssa.Parameter); isParam {
					c.Triv(rule, fname(fn), name, w.instrPos(in), "reads into the caller's buffer (a PacketConn wrapper); the caller's loop is checked")
					return
				}
				c.Undecided(rule, fname(fn), name, w.instrPos(in), "cannot determine the length of the read buffer "+w.key(buf))
				return
			}
			c.Anchor(rule, fname(fn))
			// uses of buf[:n]
			var uses []*ssa.Slice
			w.eachInstr(fn, func(in2 ssa.Instruction) {
				if sl, ok := in2.(*ssa.Slice); ok && w.isReadSlice(sl, read) {
					uses = append(uses, sl)
				}
			})
			if len(uses) == 0 {
				c.Undecided(rule, fname(fn), name, w.instrPos(in), "the bytes read are not used as buf[:n]; cannot check the truncation guard")
				return
			}
			for _, u := range uses {
				ok := false
				for _, f := range w.factsAt(u) {
					if f.Op != "<" {
						continue
					}
					nc, ni := callOf(f.X)
					// n < L
					if f.Truth && nc == read && ni == 0 {
						if lenExpr != nil && w.sameKey(f.Y, lenExpr) {
							ok = true
						}
						if k, isC := constInt(f.Y); isC && lenConst >= 0 && k <= lenConst {
							ok = true
						}
					}
					// !(K < n)  i.e. n <= K, K < len
					yc, yi := callOf(f.Y)
					if !f.Truth && yc == read && yi == 0 {
						if k, isC := constInt(f.X); isC && lenConst >= 0 && k < lenConst {
							ok = true
						}
					}
				}
				if ok {
					c.OK(rule, fname(fn), "use of buf[:n]", w.instrPos(u), "dominated by n < len(buf): a datagram that filled the buffer is not used")
				} else {
					c.Bad(rule, fname(fn), "use of buf[:n]", w.instrPos(u), "a datagram that filled the read buffer (and may have been cut by the socket) is used as if complete: no dominating test n < len(buf)", w.factsDesc(u)...)
				}
			}
		})
	}
}

// ---------------------------------------------------------------------------------

func ruleInboundCopy(c *Ctx, rule string) {
	w := c.W
	c.Rule(rule, "no aliasing of the read buffer: the data field of the inboundData that UDPConn.HandleInbound sends on readCh is a slice freshly allocated in HandleInbound (make) into which the argument is copied; it is never the parameter itself", 1)
	fn := w.Func("client", "UDPConn", "HandleInbound")
	c.Anchor(rule, "HandleInbound")
	n := 0
	bad := ""
	check := func(v ssa.Value, at ssa.Instruction) {
		al, ok := stripIface(v).(*ssa.Alloc)
		if !ok {
			bad = "enqueued value is not an inboundData literal"
			return
		}
		lit := w.literalOf(al)
		d := lit.fields["data"]
		if d == nil {
			bad = "inboundData.data is not set"
			return
		}
		dv := stripIface(w.resolveLoad(d))
		// fresh storage holding a copy of the argument, in any of its spellings
		isFreshBase := func(v ssa.Value) bool {
			v = stripIface(w.resolveLoad(v))
			switch x := v.(type) {
			case *ssa.MakeSlice:
				return true
			case *ssa.Const:
				return x.Value == nil // nil slice
			case *ssa.Slice:
				_, isAl := x.X.(*ssa.Alloc) // []byte{} literal
				return isAl
			}
			return false
		}
		if call, isCall := dv.(*ssa.Call); isCall {
			// append(fresh, data...)
			if b, isB := call.Call.Value.(*ssa.Builtin); isB && b.Name() == "append" && len(call.Call.Args) == 2 &&
				isFreshBase(call.Call.Args[0]) && w.sameKey(call.Call.Args[1], fn.Params[1]) {
				return
			}
			// bytes.Clone(data) / slices.Clone(data)
			if cal := call.Call.StaticCallee(); cal != nil && (cal.String() == "bytes.Clone" || strings.HasPrefix(cal.String(), "slices.Clone")) &&
				len(call.Call.Args) == 1 && w.sameKey(call.Call.Args[0], fn.Params[1]) {
				return
			}
		}
		ms, isMS := dv.(*ssa.MakeSlice)
		if !isMS {
			bad = "the queued payload " + w.key(d) + " is not a fresh slice: it aliases the caller's (reused) read buffer, later datagrams overwrite queued ones"
			return
		}
		copied := false
		w.eachInstr(fn, func(in ssa.Instruction) {
			if call, ok := in.(*ssa.Call); ok {
				if b, isB := call.Call.Value.(*ssa.Builtin); isB && b.Name() == "copy" && call.Call.Args[0] == ssa.Value(ms) && w.sameKey(call.Call.Args[1], fn.Params[1]) && instrReaches(call, at) {
					copied = true
				}
			}
		})
		if !copied {
			bad = "the fresh slice is not filled by copy(fresh, data) before being queued"
		}
	}
	w.eachInstr(fn, func(in ssa.Instruction) {
		switch x := in.(type) {
		case *ssa.Send:
			n++
			check(x.X, in)
		case *ssa.Select:
			for _, st := range x.States {
				if st.Dir == types.SendOnly {
					n++
					check(st.Send, in)
				}
			}
		}
	})
	if n == 0 {
		bad = "HandleInbound no longer enqueues on a channel: anchor gone"
	}
	if bad == "" {
		c.OK(rule, fname(fn), "queued payload", w.pos(fn.Pos()), "a fresh make()d slice filled by copy() from the argument")
	} else {
		c.Bad(rule, fname(fn), "queued payload", w.pos(fn.Pos()), bad)
	}
}

// ruleReadBufferStaysInIteration (C05.9): a receive loop that reads every datagram into one
// buffer allocated outside the loop owns the bytes only until the next read. Anything that
// aliases that buffer — a slice of it, a struct value or variable holding such a slice —
// must be consumed within the iteration: it is not handed to a `go` statement (as argument
// or captured variable), sent on a channel, or stored into the heap. Otherwise the next
// datagram overwrites a payload that is still being processed or waiting to be sent: data is
// altered, duplicated, or crosses over to another client's session.
func ruleReadBufferStaysInIteration(c *Ctx, rule string) {
	w := c.W
	c.Rule(rule, "read-buffer lifetime: in every loop that reads with Read/ReadFrom into a buffer allocated outside the loop, no alias of that buffer (slice, struct value or local variable holding one) is passed to or captured by a go statement, sent on a channel, or stored through a pointer that outlives the iteration", 2)
	n := 0
	for _, fn := range w.ModFns {
		if fn.Synthetic != "" {
			continue
		}
		w.eachInstr(fn, func(in ssa.Instruction) {
			call, ok := in.(*ssa.Call)
			if !ok || !call.Call.IsInvoke() || (call.Call.Method.Name() != "ReadFrom" && call.Call.Method.Name() != "Read") {
				return
			}
			if !blockReaches(call.Block(), call.Block()) {
				return // not in a loop
			}
			buf := ioBuffer(call)
			if buf == nil {
				return
			}
			var root ssa.Value = stripIface(w.resolveLoad(buf))
			for {
				sl, isSl := root.(*ssa.Slice)
				if !isSl {
					break
				}
				root = stripIface(w.resolveLoad(sl.X))
			}
			ri, isI := root.(ssa.Instruction)
			if !isI || ri.Parent() != fn {
				return // a parameter or field: the caller's buffer (its own loop is judged there)
			}
			switch root.(type) {
			case *ssa.MakeSlice, *ssa.Alloc:
			default:
				return
			}
			if ri.Block() == call.Block() || blockReaches(call.Block(), ri.Block()) {
				return // allocated per iteration
			}
			n++
			c.Anchor(rule, fname(fn))
			// aliases of the buffer inside fn (forward closure over slices, conversions,
			// stores into local variables / struct fields, loads of those)
			alias := map[ssa.Value]bool{root: true}
			for changed := true; changed; {
				changed = false
				mark := func(v ssa.Value) {
					if v != nil && !alias[v] {
						alias[v] = true
						changed = true
					}
				}
				w.eachInstr(fn, func(i2 ssa.Instruction) {
					switch x := i2.(type) {
					case *ssa.Slice:
						if alias[x.X] {
							mark(x)
						}
					case *ssa.ChangeType:
						if alias[x.X] {
							mark(x)
						}
					case *ssa.Convert:
						if alias[x.X] {
							if _, isSl := x.Type().Underlying().(*types.Slice); isSl {
								mark(x)
							}
						}
					case *ssa.MakeInterface:
						if alias[x.X] {
							mark(x)
						}
					case *ssa.Phi:
						for _, e := range x.Edges {
							if alias[e] {
								mark(x)
							}
						}
					case *ssa.Store:
						if alias[x.Val] {
							// the variable (or the local struct a field of which) now holds an alias
							if al, _ := allocBase(x.Addr); al != nil {
								mark(al)
							} else if a2, isAl := x.Addr.(*ssa.Alloc); isAl {
								mark(a2)
							}
						}
					case *ssa.UnOp:
						if x.Op == token.MUL {
							if al, _ := allocBase(x.X); al != nil && alias[al] {
								if _, isPtr := x.Type().Underlying().(*types.Basic); !isPtr {
									mark(x)
								}
							} else if a2, isAl := x.X.(*ssa.Alloc); isAl && alias[a2] {
								mark(x)
							}
						}
					case *ssa.Field:
						if alias[x.X] {
							if _, isB := x.Type().Underlying().(*types.Basic); !isB {
								mark(x)
							}
						}
					}
				})
			}
			bad := ""
			w.eachInstr(fn, func(i2 ssa.Instruction) {
				if bad != "" {
					return
				}
				switch x := i2.(type) {
				case *ssa.Go:
					for _, a := range x.Call.Args {
						if alias[a] {
							bad = "passed to the goroutine started at " + w.instrPos(i2)
						}
					}
					if mc, isMC := x.Call.Value.(*ssa.MakeClosure); isMC {
						for _, b := range mc.Bindings {
							if alias[b] {
								// a local struct that held a slice of the buffer in one field, the
								// field replaced by a private copy on every path to this statement
								if al, isAl := b.(*ssa.Alloc); isAl && aliasFieldsKilledBefore(al, alias, i2) {
									continue
								}
								bad = "captured by the goroutine started at " + w.instrPos(i2)
							}
						}
					}
				case *ssa.Send:
					if alias[x.X] {
						bad = "sent on a channel at " + w.instrPos(i2)
					}
				}
			})
			if bad == "" {
				c.OK(rule, fname(fn), "read buffer", w.instrPos(in), "every alias of the buffer is consumed before the next read")
			} else {
				c.Bad(rule, fname(fn), "read buffer", w.instrPos(in), "the receive buffer of this loop (or a value holding a slice of it) is "+bad+" while the loop goes on to read the next datagram into the same bytes: a payload still being processed or waiting to be forwarded is overwritten — data is altered, duplicated, or delivered on another client's session")
			}
		})
	}
	if n < 2 {
		c.Anchor(rule, "-")
		c.Bad(rule, "-", "read buffer", "-", fmt.Sprintf("only %d receive loops with a reused buffer found (server read loop and relay read loop expected): anchor gone", n))
	}
}

// aliasFieldsKilledBefore: the local struct al holds aliases of the read buffer only through
// stores into single fields, and each of those stores is overwritten — same field, a value that
// is not an alias — on every path from it to the instruction `to`.
func aliasFieldsKilledBefore(al *ssa.Alloc, alias map[ssa.Value]bool, to ssa.Instruction) bool {
	if al.Referrers() == nil {
		return false
	}
	type fs struct {
		fa *ssa.FieldAddr
		st *ssa.Store
	}
	var holds []fs
	for _, r := range *al.Referrers() {
		switch x := r.(type) {
		case *ssa.Store:
			if x.Addr == ssa.Value(al) && alias[x.Val] {
				return false
			}
		case *ssa.FieldAddr:
			for _, r2 := range *x.Referrers() {
				switch y := r2.(type) {
				case *ssa.Store:
					if y.Addr == ssa.Value(x) && alias[y.Val] {
						holds = append(holds, fs{x, y})
					}
				case *ssa.UnOp, *ssa.DebugRef:
				default:
					return false // the field's address goes elsewhere
				}
			}
		}
	}
	if len(holds) == 0 {
		return false
	}
	for _, h := range holds {
		kill := func(in ssa.Instruction) bool {
			st, ok := in.(*ssa.Store)
			if !ok || alias[st.Val] {
				return false
			}
			fa, ok := st.Addr.(*ssa.FieldAddr)
			return ok && fa.X == ssa.Value(al) && fa.Field == h.fa.Field
		}
		if reachesWithout(h.st, to, kill) {
			return false
		}
	}
	return true
}

// reachesWithout: some CFG path from just after `from` reaches `to` without passing an
// instruction accepted by kill.
func reachesWithout(from, to ssa.Instruction, kill func(ssa.Instruction) bool) bool {
	fb, tb := from.Block(), to.Block()
	if fb == nil || tb == nil || fb.Parent() != tb.Parent() {
		return true
	}
	// scan returns: reached `to`, killed
	scan := func(b *ssa.BasicBlock, start int) (bool, bool) {
		for i := start; i < len(b.Instrs); i++ {
			if b.Instrs[i] == to {
				return true, false
			}
			if kill(b.Instrs[i]) {
				return false, true
			}
		}
		return false, false
	}
	if hit, killed := scan(fb, indexIn(from)+1); hit {
		return true
	} else if killed {
		return false
	}
	seen := map[*ssa.BasicBlock]bool{}
	stack := append([]*ssa.BasicBlock{}, liveSuccs(fb)...)
	for len(stack) > 0 {
		b := stack[len(stack)-1]
		stack = stack[:len(stack)-1]
		if seen[b] {
			continue
		}
		seen[b] = true
		hit, killed := scan(b, 0)
		if hit {
			return true
		}
		if killed {
			continue
		}
		stack = append(stack, liveSuccs(b)...)
	}
	return false
}
