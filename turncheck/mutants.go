package main

// Thorough-tier self-validation of the checker. Every catalogue entry is applied to a scratch
// copy of the repository under $TMPDIR and analysed in a SEPARATE process (memory stays
// bounded); the copy is deleted immediately. Entries:
//   - /verif/seeded/<id>/patch.diff   (independently written, dynamically confirmed breakages)
//   - /verif/mutants/catalogue.json   (single-site semantic mutants, each must fire;
//                                       behaviour-preserving edits, each must stay silent)
//   - /verif/mutants/benign/*.diff    (independently written behaviour-preserving
//                                       refactorings, each must stay silent)
// The result is evidence about the checker; it never changes a property's verdict.

import (
	"encoding/json"
	"fmt"
	"os"
	"os/exec"
	"path/filepath"
	"sort"
	"strings"
	"sync"
)

type mutant struct {
	ID     string   `json:"id"`
	Props  []string `json:"props"` // properties whose check must fire (or stay silent for benign)
	File   string   `json:"file"`  // relative to the repository
	Old    string   `json:"old"`   // must occur exactly once
	New    string   `json:"new"`
	Benign bool     `json:"benign"` // behaviour-preserving: every listed check must stay silent
	Expect string   `json:"expect"` // rule id expected to fire (informational)
	Why    string   `json:"why"`
	Base   string   `json:"base"` // optional: a patch under /verif/mutants applied first (a benign refactoring the mutation is made in)
	patch  string   // path of a patch file instead of old/new
}

func selftestImpl(verifDir, repo, prop string) map[string]any {
	var entries []mutant
	// seeded patches
	if ds, err := filepath.Glob(filepath.Join(verifDir, "seeded", "*", "meta.json")); err == nil {
		sort.Strings(ds)
		for _, m := range ds {
			b, err := os.ReadFile(m)
			if err != nil {
				continue
			}
			var meta struct {
				ID       string   `json:"id"`
				Property string   `json:"property"`
				CaughtBy []string `json:"caught_by"`
			}
			if json.Unmarshal(b, &meta) != nil {
				continue
			}
			want := meta.Property == prop
			for _, p := range meta.CaughtBy {
				if p == prop {
					want = true
				}
			}
			if want {
				entries = append(entries, mutant{ID: "seeded/" + meta.ID, Props: []string{prop}, patch: filepath.Join(filepath.Dir(m), "patch.diff")})
			}
		}
	}
	// catalogue
	if b, err := os.ReadFile(filepath.Join(verifDir, "mutants", "catalogue.json")); err == nil {
		var cat []mutant
		if err := json.Unmarshal(b, &cat); err == nil {
			for _, m := range cat {
				for _, p := range m.Props {
					if p == prop {
						mm := m
						mm.Props = []string{prop}
						entries = append(entries, mm)
					}
				}
			}
		}
	}
	// behaviour-preserving refactorings written independently (extract helper, closure to
	// method, loop forms, ...): every check must stay silent on each
	if ds, err := filepath.Glob(filepath.Join(verifDir, "mutants", "benign", "*.diff")); err == nil {
		sort.Strings(ds)
		for _, d := range ds {
			entries = append(entries, mutant{ID: "benign/" + strings.TrimSuffix(filepath.Base(d), ".diff"), Props: []string{prop}, patch: d, Benign: true})
		}
	}
	knownLimit := map[string]string{}
	if b, err := os.ReadFile(filepath.Join(verifDir, "mutants", "benign", "KNOWN_LIMITS.json")); err == nil {
		_ = json.Unmarshal(b, &knownLimit)
	}
	exe, _ := os.Executable()
	type res struct {
		ID      string `json:"id"`
		Kind    string `json:"kind"`
		Outcome string `json:"outcome"`
		Detail  string `json:"detail,omitempty"`
	}
	results := make([]res, len(entries))
	sem := make(chan struct{}, 8)
	var wg sync.WaitGroup
	for i, m := range entries {
		wg.Add(1)
		go func(i int, m mutant) {
			defer wg.Done()
			sem <- struct{}{}
			defer func() { <-sem }()
			kind := "must-fire"
			if m.Benign {
				kind = "must-stay-silent"
			}
			r := res{ID: m.ID, Kind: kind}
			tmp, err := os.MkdirTemp("", "turncheck-self-")
			if err != nil {
				r.Outcome = "skipped"
				r.Detail = err.Error()
				results[i] = r
				return
			}
			defer os.RemoveAll(tmp)
			dst := filepath.Join(tmp, "repo")
			if out, err := exec.Command("rsync", "-a", "--exclude", ".git", repo+"/", dst+"/").CombinedOutput(); err != nil {
				r.Outcome, r.Detail = "skipped", "copy failed: "+string(out)
				results[i] = r
				return
			}
			if m.patch != "" {
				cmd := exec.Command("patch", "-p1", "-s", "-f", "-i", m.patch)
				cmd.Dir = dst
				if out, err := cmd.CombinedOutput(); err != nil {
					r.Outcome, r.Detail = "skipped", "patch no longer applies to the current tree: "+firstLine(string(out))
					results[i] = r
					return
				}
			} else {
				if m.Base != "" {
					cmd := exec.Command("patch", "-p1", "-s", "-f", "-i", filepath.Join(verifDir, "mutants", m.Base))
					cmd.Dir = dst
					if out, err := cmd.CombinedOutput(); err != nil {
						r.Outcome, r.Detail = "skipped", "base refactoring no longer applies to the current tree: "+firstLine(string(out))
						results[i] = r
						return
					}
				}
				p := filepath.Join(dst, m.File)
				b, err := os.ReadFile(p)
				if err != nil || strings.Count(string(b), m.Old) != 1 {
					r.Outcome, r.Detail = "skipped", "anchor text no longer occurs exactly once in "+m.File
					results[i] = r
					return
				}
				os.WriteFile(p, []byte(strings.Replace(string(b), m.Old, m.New, 1)), 0o644)
			}
			vdir := filepath.Join(tmp, "v")
			os.MkdirAll(filepath.Join(vdir, "evidence"), 0o755)
			if kb, err := os.ReadFile(filepath.Join(verifDir, "known_findings.json")); err == nil {
				os.WriteFile(filepath.Join(vdir, "known_findings.json"), kb, 0o644)
			}
			cmd := exec.Command(exe, "-prop", prop, "-tier", "quick", "-repo", dst, "-verif", vdir)
			cmd.Env = append(os.Environ(), "GOFLAGS=-mod=mod", "GOPROXY=off", "GOCACHE="+filepath.Join(tmp, "gocache"))
			out, _ := cmd.CombinedOutput()
			code := cmd.ProcessState.ExitCode()
			fired := ""
			for _, l := range strings.Split(string(out), "\n") {
				l = strings.TrimSpace(l)
				if strings.HasPrefix(l, "VIOLATED") || strings.HasPrefix(l, "UNDECIDED") {
					f := strings.Fields(l)
					if len(f) > 1 {
						fired = f[1]
						break
					}
				}
			}
			switch {
			case code == 2:
				r.Outcome, r.Detail = "analysis-failure", firstLine(string(out))
			case m.Benign && code == 0:
				r.Outcome = "silent (as required)"
			case m.Benign && knownLimit[strings.TrimPrefix(m.ID, "benign/")] != "":
				r.Outcome, r.Detail = "reported (known limit of the analysis, see DESIGN.md 12.8)", fired
			case m.Benign:
				r.Outcome, r.Detail = "FALSE ALARM", fired
			case code == 1:
				r.Outcome, r.Detail = "fired", fired
			default:
				r.Outcome = "MISSED"
			}
			results[i] = r
		}(i, m)
	}
	wg.Wait()
	n := map[string]int{}
	var bad []string
	for _, r := range results {
		switch {
		case r.Outcome == "fired" || strings.HasPrefix(r.Outcome, "silent"):
			n["as_expected"]++
		case r.Outcome == "skipped":
			n["skipped"]++
		case strings.HasPrefix(r.Outcome, "reported (known limit"):
			n["known_limit"]++
		default:
			n["unexpected"]++
			bad = append(bad, fmt.Sprintf("%s: %s %s", r.ID, r.Outcome, r.Detail))
		}
	}
	return map[string]any{
		"what":        "checker self-validation: each entry applied to a scratch copy of the current tree and analysed in its own process; does not influence the verdict",
		"entries":     len(entries),
		"as_expected": n["as_expected"],
		"skipped":     n["skipped"],
		"known_limit": n["known_limit"],
		"unexpected":  n["unexpected"],
		"problems":    bad,
		"results":     results,
	}
}

func firstLine(s string) string {
	s = strings.TrimSpace(s)
	if i := strings.IndexByte(s, '\n'); i >= 0 {
		s = s[:i]
	}
	if len(s) > 300 {
		s = s[:300]
	}
	return s
}
