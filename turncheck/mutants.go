package main

func selftestImpl(verifDir, repo, prop string) map[string]any {
	return map[string]any{"status": "no mutant catalogue entries for this property yet"}
}
