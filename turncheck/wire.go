package main

// Big-endian wire words as byte ranges.
//
// A frame header may be read field by field (Uint16(buf[2:4])) or as one word that is then
// taken apart (h := Uint32(buf[:4]); h >> 16; uint16(h)), and written likewise. Rules about
// "the declared length" or "the number field" must not depend on which: wireField names the
// bytes of the buffer an integer value stands for, packedBytes names, per byte of a word that
// is written out, the value and the byte of it that lands there.

import (
	"go/token"
	"go/types"
	"strings"

	"golang.org/x/tools/go/ssa"
)

// byteWidth: the size in bytes of a sized unsigned integer type (0 otherwise).
func unsignedWidth(t types.Type) int64 {
	b, ok := t.Underlying().(*types.Basic)
	if !ok || b.Info()&types.IsUnsigned == 0 {
		return 0
	}
	switch b.Kind() {
	case types.Uint8:
		return 1
	case types.Uint16:
		return 2
	case types.Uint32:
		return 4
	case types.Uint64:
		return 8
	}
	return 0
}

// wireField: v is the big-endian unsigned number held in bytes [off, off+n) of the byte slice
// root (zero-extended to v's type): a binary.BigEndian.UintN read of a constant sub-slice, a
// right shift by whole bytes of one, its truncation to a narrower unsigned type, its masking
// with 0xff…, or a widening conversion of any of these.
func (w *World) wireField(v ssa.Value) (root ssa.Value, off, n int64, ok bool) {
	v = w.resolveLoad(v)
	switch x := v.(type) {
	case *ssa.ChangeType:
		return w.wireField(x.X)
	case *ssa.Convert:
		if !isIntType(x.Type()) || !isIntType(x.X.Type()) {
			return nil, 0, 0, false
		}
		r, o, k, ok := w.wireField(x.X)
		if !ok {
			return nil, 0, 0, false
		}
		if tw := unsignedWidth(x.Type()); tw > 0 && tw < k {
			return r, o + (k - tw), tw, true // keeps the low tw bytes
		}
		if typeRange(x.Type()).hi < (int64(1)<<(8*uint(k)))-1 && k < 8 {
			return nil, 0, 0, false // a narrower signed type: not a field extraction
		}
		return r, o, k, true
	case *ssa.Call:
		name := stdCallee(&x.Call)
		if !strings.HasPrefix(name, "(encoding/binary.bigEndian).Uint") || len(x.Call.Args) != 2 {
			return nil, 0, 0, false
		}
		k := uintWidth(name[strings.LastIndex(name, ".")+1:], "Uint")
		if k <= 0 {
			return nil, 0, 0, false
		}
		base, lo, hi := sliceRange(w.resolveLoad(x.Call.Args[1]))
		if hi >= 0 && hi-lo < k {
			return nil, 0, 0, false
		}
		return w.resolveLoad(base), lo, k, true
	case *ssa.BinOp:
		switch x.Op {
		case token.SHR:
			r, o, k, ok := w.wireField(x.X)
			s, isK := constInt(x.Y)
			if ok && isK && s >= 0 && s%8 == 0 && s/8 < k {
				return r, o, k - s/8, true
			}
		case token.AND:
			for _, p := range [][2]ssa.Value{{x.X, x.Y}, {x.Y, x.X}} {
				r, o, k, ok := w.wireField(p[0])
				m, isK := constInt(p[1])
				if !ok || !isK {
					continue
				}
				for j := int64(1); j <= k && j < 8; j++ {
					if m == (int64(1)<<(8*uint(j)))-1 {
						return r, o + (k - j), j, true
					}
				}
			}
		}
	}
	return nil, 0, 0, false
}

// packedByte: one byte of a word: byte `idx` (0 = least significant) of value val, or zero.
type packedByte struct {
	val ssa.Value
	idx int64
}

// packedBytes: the bytes of the n-byte unsigned word v, most significant first, as bytes of
// the values it is put together from by widening conversions, shifts by whole bytes and | (or
// + / ^) of parts that do not overlap. ok=false when parts overlap or v is not n bytes wide.
func (w *World) packedBytes(v ssa.Value, n int64) ([]packedByte, bool) {
	v = w.resolveLoad(v)
	atom := func() ([]packedByte, bool) {
		tw := unsignedWidth(v.Type())
		if tw == 0 || tw > n {
			return nil, false
		}
		out := make([]packedByte, n)
		for i := int64(0); i < tw; i++ {
			out[n-1-i] = packedByte{v, i}
		}
		return out, true
	}
	switch x := v.(type) {
	case *ssa.Const:
		if k, isK := constInt(x); isK && k == 0 {
			return make([]packedByte, n), true
		}
		return atom()
	case *ssa.ChangeType:
		if unsignedWidth(x.X.Type()) > 0 {
			return w.packedBytes(x.X, n)
		}
	case *ssa.Convert:
		sw, tw := unsignedWidth(x.X.Type()), unsignedWidth(x.Type())
		if sw > 0 && tw >= sw && tw <= n {
			return w.packedBytes(x.X, n) // widening of an unsigned value: same bytes, more zeros
		}
		return atom()
	case *ssa.BinOp:
		switch x.Op {
		case token.SHL:
			s, isK := constInt(x.Y)
			tw := unsignedWidth(x.Type())
			if !isK || s < 0 || s%8 != 0 || tw == 0 || tw > n {
				return atom()
			}
			in, ok := w.packedBytes(x.X, tw)
			if !ok {
				return nil, false
			}
			out := make([]packedByte, n)
			for i := int64(0); i < tw; i++ { // i: index from the most significant byte of the tw-byte operand
				j := i - s/8 // shifted towards the most significant end
				if j >= 0 {
					out[n-tw+j] = in[i]
				}
			}
			return out, true
		case token.OR, token.XOR, token.ADD:
			l, ok1 := w.packedBytes(x.X, n)
			r, ok2 := w.packedBytes(x.Y, n)
			if !ok1 || !ok2 {
				return nil, false
			}
			out := make([]packedByte, n)
			for i := range out {
				switch {
				case l[i].val == nil:
					out[i] = r[i]
				case r[i].val == nil:
					out[i] = l[i]
				default:
					return nil, false // both sides contribute to this byte
				}
			}
			return out, true
		}
	}
	return atom()
}

// wireWrites: what a function writes into bytes [0,n) of the byte slice field fld of its
// receiver through binary.BigEndian.PutUintN on constant sub-slices: per byte the value and
// byte of it written there (nil where nothing is written or the writes are not understood).
func (w *World) wireWrites(fn *ssa.Function, fld *types.Var, n int64) (out []packedByte, overlap string) {
	out = make([]packedByte, n)
	w.eachInstr(fn, func(in ssa.Instruction) {
		call, ok := in.(*ssa.Call)
		if !ok {
			return
		}
		name := stdCallee(&call.Call)
		if !strings.HasPrefix(name, "(encoding/binary.bigEndian).PutUint") || len(call.Call.Args) != 3 {
			return
		}
		k := uintWidth(name[strings.LastIndex(name, ".")+1:], "PutUint")
		base, lo, _ := sliceRange(w.resolveLoad(call.Call.Args[1]))
		if _, f, isL := fieldLoad(w.resolveLoad(base)); !isL || f != fld || k <= 0 {
			return
		}
		pb, ok := w.packedBytes(call.Call.Args[2], k)
		if !ok {
			overlap = w.instrPos(call)
			return
		}
		for i := int64(0); i < k; i++ {
			if lo+i >= 0 && lo+i < n {
				out[lo+i] = pb[i]
			}
		}
	})
	return out, overlap
}
