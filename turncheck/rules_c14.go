package main

import (
	"fmt"
	"go/constant"
	"go/token"
	"os"
	"sort"
	"strings"

	"golang.org/x/tools/go/ssa"
)

func init() {
	register(&propDef{
		ID:        "C14",
		Title:     "A live client keeps its relay alive indefinitely and Close releases it",
		Technique: "constant compatibility between the client's refresh cadence and the server's default timeouts (constants located by use with go/constant), must-pass-through of timer creation/start in the constructors, sibling rule over every stale-nonce site and its callers, must-pass of the Refresh(0) on Close",
		Explanation: "Only necessary conditions are decided (the liveness claim itself is dynamic): " +
			"C14.1 constant compatibility: default permission refresh interval + worst-case transaction time (sum of the retransmission schedule RTO·2^k capped at 1.6 s over 7 transmissions) < the server's default permission timeout; default binding refresh + binding check interval + worst-case transaction time < the server's default channel timeout; the allocation refresh period is lifetime/k with k ≥ 2; " +
			"C14.2 NewUDPConn creates and starts the allocation-refresh, permission-refresh and binding-check timers on every path (NewTCPAllocation the first two), and their handlers reach refreshAllocation / refreshPermissions / maybeBind; " +
			"C14.3 stale-nonce recovery: every site that compares a response's error code with 438 stores the response's nonce and returns the retry sentinel, and every call site (including the call of a function parameter inside a retry combinator) that can receive the sentinel retries on it inside a bounded loop or hands it on; " +
			"C14.7 a retry carries the new nonce: every function run as one attempt of such a loop reads the allocation's nonce on every path to its PerformTransaction (helpers inlined), so a request built once outside the loop is reported; " +
			"C14.6 the fire-and-forget Refresh(0) of Close leaves the transaction table only through its armed timer (shared rule C12.1); " +
			"C14.8 (=C13.8) a binding is marked refreshed only after the server confirmed a ChannelBind, so steady traffic cannot postpone the periodic re-bind; " +
			"C14.9 a binding found new or due is always sent: every path of maybeBind that moves the binding to the request/refresh state starts a ChannelBind attempt (no gate defers it to a later check); C14.10 (=C12.9) re-arming a retransmission timer never blocks: no receive on the C of an AfterFunc timer; " +
			"C14.5 a duplicated or late response (no pending transaction) does not end the client's read loop: handleSTUNMessage returns nil for it; " +
			"C14.4 the first-close path of UDPConn.Close and TCPAllocation.Close calls refreshAllocation with the constant lifetime 0, and refreshAllocation reaches PerformTransaction on every path that returns nil. C14.11 (=C13.13) nothing removes an entry of the client's binding table.",
		NotCovered: "liveness over hours and under loss schedules, server configurations other than the defaults, nonce expiry timing — the bulk of this property is not applicable to static analysis.",
		Run:        runC14,
	})
}

func runC14(c *Ctx) {
	w := c.W
	sec := func(v constant.Value) float64 {
		f, _ := constant.Float64Val(constant.ToFloat(v))
		return f / 1e9
	}
	// ---- C14.1
	c.Rule("C14.1", "constant compatibility (values taken from the constants as they are used): permRefresh + worstTx < DefaultPermissionTimeout; bindingRefresh + bindingCheck + worstTx < default channel timeout; allocation refresh interval = lifetime() / k, k ≥ 2", 3)
	{
		rto := sec(w.Const("turn", "defaultRTO"))
		cnt, _ := constant.Int64Val(w.Const("turn", "maxRtxCount"))
		capI := sec(w.Const("client", "maxRtxInterval"))
		worst := 0.0
		iv := rto
		for i := int64(0); i < cnt; i++ {
			worst += iv
			iv *= 2
			if iv > capI {
				iv = capI
			}
		}
		// constants located by use in NewUDPConn: the phi of the default and the configured value
		newUDP := w.Func("client", "", "NewUDPConn")
		defaults := map[string]float64{}
		w.eachInstr(newUDP, func(in ssa.Instruction) {
			call, ok := in.(*ssa.Call)
			if !ok || call.Call.StaticCallee() == nil || call.Call.StaticCallee().Name() != "NewPeriodicTimer" {
				return
			}
			id, _ := constInt(call.Call.Args[0])
			iv := call.Call.Args[2]
			if phi, isPhi := iv.(*ssa.Phi); isPhi {
				for _, e := range phi.Edges {
					if k, isK := constInt(e); isK {
						defaults[fmt.Sprint("timer", id)] = float64(k) / 1e9
					}
				}
			}
			if k, ok := defaultOfOr(w, iv); ok {
				defaults[fmt.Sprint("timer", id)] = float64(k) / 1e9
			}
			if bo, isBO := iv.(*ssa.BinOp); isBO && bo.Op == token.QUO {
				if k, isK := constInt(bo.Y); isK {
					defaults[fmt.Sprint("timer", id, "div")] = float64(k)
				}
			}
		})
		// binding refresh default: constant stored into bindingRefreshInterval in the constructor literal
		bri := -1.0
		w.eachInstr(newUDP, func(in ssa.Instruction) {
			if st, ok := in.(*ssa.Store); ok {
				if fa, ok := st.Addr.(*ssa.FieldAddr); ok && nm(fieldOf(fa)) == "bindingRefreshInterval" {
					if k, isK := constInt(st.Val); isK {
						bri = float64(k) / 1e9
					} else if k, ok := defaultOfOr(w, st.Val); ok {
						bri = float64(k) / 1e9
					}
				}
			}
		})
		permTimeout := sec(w.Const("allocation", "DefaultPermissionTimeout"))
		chanTimeout := sec(w.Const("proto", "DefaultLifetime"))
		idPerms, _ := constant.Int64Val(w.Const("client", "timerIDRefreshPerms"))
		idBind, _ := constant.Int64Val(w.Const("client", "timerIDCheckBindings"))
		idAlloc, _ := constant.Int64Val(w.Const("client", "timerIDRefreshAlloc"))
		pr := defaults[fmt.Sprint("timer", idPerms)]
		bc := defaults[fmt.Sprint("timer", idBind)]
		div := defaults[fmt.Sprint("timer", idAlloc, "div")]
		c.Anchor("C14.1", "permissions")
		if pr > 0 && pr+worst < permTimeout {
			c.OK("C14.1", fname(newUDP), "permission cadence", w.pos(newUDP.Pos()), fmt.Sprintf("%.1fs refresh + %.1fs worst transaction < %.0fs server permission timeout", pr, worst, permTimeout))
		} else {
			c.Bad("C14.1", fname(newUDP), "permission cadence", w.pos(newUDP.Pos()), fmt.Sprintf("default permission refresh %.1fs + worst transaction %.1fs is not below the server's default permission timeout %.0fs: permissions lapse between refreshes", pr, worst, permTimeout))
		}
		c.Anchor("C14.1", "bindings")
		if bri > 0 && bc > 0 && bri+bc+worst < chanTimeout {
			c.OK("C14.1", fname(newUDP), "binding cadence", w.pos(newUDP.Pos()), fmt.Sprintf("%.0fs refresh age + %.0fs check period + %.1fs worst transaction < %.0fs server channel timeout", bri, bc, worst, chanTimeout))
		} else {
			c.Bad("C14.1", fname(newUDP), "binding cadence", w.pos(newUDP.Pos()), fmt.Sprintf("binding refresh %.0fs + check %.0fs + worst transaction %.1fs is not below the server's default channel timeout %.0fs", bri, bc, worst, chanTimeout))
		}
		c.Anchor("C14.1", "allocation")
		if div >= 2 {
			c.OK("C14.1", fname(newUDP), "allocation cadence", w.pos(newUDP.Pos()), fmt.Sprintf("allocation refreshed every lifetime/%.0f", div))
		} else {
			c.Bad("C14.1", fname(newUDP), "allocation cadence", w.pos(newUDP.Pos()), fmt.Sprintf("the allocation refresh period is not lifetime/k with k ≥ 2 (k=%.0f)", div))
		}
	}

	// ---- C14.2
	c.Rule("C14.2", "periodic timers: in NewUDPConn (resp. NewTCPAllocation) each of the timer fields refreshAllocTimer, refreshPermsTimer, checkBindingsTimer (resp. the first two) is assigned a NewPeriodicTimer and Start() is called on it on every path to the return; the handler of the first two is onRefreshTimers (which reaches refreshAllocation and refreshPermissions under the respective timer id), the third's closure calls maybeBind for every binding", 5)
	{
		type ctor struct {
			fn     *ssa.Function
			timers []string
		}
		for _, ct := range []ctor{{w.Func("client", "", "NewUDPConn"), []string{"refreshAllocTimer", "refreshPermsTimer", "checkBindingsTimer"}}, {w.Func("client", "", "NewTCPAllocation"), []string{"refreshAllocTimer", "refreshPermsTimer"}}} {
			start := w.Func("client", "PeriodicTimer", "Start")
			for _, tn := range ct.timers {
				c.Anchor("C14.2", ct.fn.Name()+"."+tn)
				assigned := false
				w.eachInstr(ct.fn, func(in ssa.Instruction) {
					if st, ok := in.(*ssa.Store); ok {
						if fa, ok := st.Addr.(*ssa.FieldAddr); ok && fieldOf(fa).Name() == tn {
							if nc, _ := callOf(st.Val); nc != nil && nc.Call.StaticCallee() != nil && nc.Call.StaticCallee().Name() == "NewPeriodicTimer" {
								assigned = true
							}
						}
					}
				})
				startedAll := true
				for _, r := range returnsOf(ct.fn) {
					if !allPathsTo(ct.fn, r.Block(), func(in ssa.Instruction) bool {
						call, ok := in.(*ssa.Call)
						if !ok || call.Call.StaticCallee() != start {
							return false
						}
						_, f, isL := fieldLoad(call.Call.Args[0])
						return isL && f.Name() == tn
					}) {
						startedAll = false
					}
				}
				if assigned && startedAll {
					c.OK("C14.2", fname(ct.fn), tn, w.pos(ct.fn.Pos()), "created by NewPeriodicTimer and Start()ed on every path")
				} else {
					c.Bad("C14.2", fname(ct.fn), tn, w.pos(ct.fn.Pos()), fmt.Sprintf("keep-alive timer %s is not created (%v) and started on every path (%v): that piece of server state is never refreshed", tn, assigned, startedAll))
				}
			}
		}
		// handlers
		c.Anchor("C14.2", "handlers")
		on := w.Func("client", "allocation", "onRefreshTimers")
		ra := w.Func("client", "allocation", "refreshAllocation")
		rp := w.Func("client", "allocation", "refreshPermissions")
		mb := w.Func("client", "UDPConn", "maybeBind")
		idAlloc, _ := constant.Int64Val(w.Const("client", "timerIDRefreshAlloc"))
		idPerms, _ := constant.Int64Val(w.Const("client", "timerIDRefreshPerms"))
		okA, okP := false, false
		w.eachInstrDeep(on, func(in ssa.Instruction) {
			call, ok := in.(*ssa.Call)
			if !ok {
				return
			}
			mark := func(facts []Fact, cals []*ssa.Function) {
				for _, f := range facts {
					if f.Op == "==" && f.Truth && w.sameKey(f.X, on.Params[1]) {
						k, _ := constInt(f.Y)
						for _, cal := range cals {
							if cal == ra && k == idAlloc {
								okA = true
							}
							if cal == rp && k == idPerms {
								okP = true
							}
						}
					}
				}
			}
			mark(w.factsAt(in), w.calledFns(call))
			// a function variable chosen per timer id and called afterwards: each value it can
			// hold, with the facts under which it was chosen
			if call.Call.StaticCallee() == nil && !call.Call.IsInvoke() {
				for _, lf := range w.guardedLeaves(call.Call.Value, call) {
					var body *ssa.Function
					switch x := lf.val.(type) {
					case *ssa.MakeClosure:
						body = w.closureBody(x)
					case *ssa.Function:
						body = x
					}
					if body == nil {
						continue
					}
					cals := []*ssa.Function{body}
					w.eachInstrDeep(body, func(i2 ssa.Instruction) {
						if c2, ok := i2.(*ssa.Call); ok && c2.Call.StaticCallee() != nil {
							cals = append(cals, c2.Call.StaticCallee())
						}
					})
					mark(lf.facts, cals)
				}
			}
		})
		okB := false
		for _, a := range w.helpersOf(w.Func("client", "", "NewUDPConn")) {
			if a.Parent() == nil && w.singleSiteCI(a) == nil {
				continue // the constructor itself: the handler is a closure or a helper of one
			}
			w.eachInstr(a, func(in ssa.Instruction) {
				if call, ok := in.(*ssa.Call); ok && call.Call.StaticCallee() == mb {
					okB = true
				}
			})
		}
		if okA && okP && okB {
			c.OK("C14.2", fname(on), "handlers", w.pos(on.Pos()), "alloc timer → refreshAllocation, perms timer → refreshPermissions, bindings timer → maybeBind")
		} else {
			c.Bad("C14.2", fname(on), "handlers", w.pos(on.Pos()), fmt.Sprintf("a keep-alive handler no longer reaches its refresh (alloc=%v perms=%v bindings=%v)", okA, okP, okB))
		}
	}

	// ---- C14.3
	c.Rule("C14.3", "stale nonce: every comparison of an ErrorCodeAttribute's Code with the constant 438 (if- or switch-form) has, on its equal edge, a call of setNonceFromMsg(the response) followed by a return of the retry sentinel errTryAgain; every module caller of a function that can return that sentinel tests errors.Is(err, errTryAgain) inside a loop bounded by a positive constant", 5)
	{
		stale := stunConst(w, "CodeStaleNonce")
		setN := w.Func("client", "allocation", "setNonceFromMsg")
		sentinelFns := map[*ssa.Function]bool{}
		for _, fn := range w.ModFns {
			if fnPkgPath(fn) != w.tpkg("client").Path() {
				continue
			}
			w.eachInstr(fn, func(in ssa.Instruction) {
				bo, ok := in.(*ssa.BinOp)
				if !ok || bo.Op != token.EQL {
					return
				}
				k, isK := constInt(bo.Y)
				if !isK || k != stale {
					return
				}
				if _, f, isL := fieldLoad(bo.X); !isL || f.Name() != "Code" {
					return
				}
				c.Anchor("C14.3", fname(fn))
				// the equal edge
				var eq *ssa.BasicBlock
				for _, r := range *bo.Referrers() {
					if iff, isIf := r.(*ssa.If); isIf {
						eq = iff.Block().Succs[0]
					}
				}
				if eq == nil {
					c.Undecided("C14.3", fname(fn), "438 site", w.instrPos(in), "comparison with 438 is not a branch condition")
					return
				}
				okSet, okRet := false, false
				for _, i2 := range eq.Instrs {
					if call, isC := i2.(*ssa.Call); isC && call.Call.StaticCallee() == setN {
						okSet = true
					}
					if r, isR := i2.(*ssa.Return); isR {
						if g := globalLoad(w.resolveLoad(r.Results[len(r.Results)-1])); g != nil && nm(g) == "errTryAgain" {
							okRet = true
						}
					}
				}
				if okSet && okRet {
					sentinelFns[fn] = true
					c.OK("C14.3", fname(fn), "438 site", w.instrPos(in), "stores the response's nonce and returns errTryAgain")
				} else {
					c.Bad("C14.3", fname(fn), "438 site", w.instrPos(in), fmt.Sprintf("a 438 (stale nonce) answer is not recovered from: nonce stored=%v, retry sentinel returned=%v", okSet, okRet))
				}
			})
		}
		// forwards(cs): the error result of this call flows into a return value of the caller
		forwards := func(cs ssa.CallInstruction) bool {
			call, ok := cs.(*ssa.Call)
			if !ok {
				return false
			}
			caller := cs.Parent()
			for _, r := range returnsOf(caller) {
				if len(r.Results) == 0 {
					continue
				}
				last := r.Results[len(r.Results)-1]
				isCall := func(v ssa.Value) bool {
					if v == ssa.Value(call) {
						return true
					}
					ex, ok := v.(*ssa.Extract)
					return ok && ex.Tuple == ssa.Value(call)
				}
				if w.dependsOn(last, isCall, caller) && w.errIdentityFlows(last, isCall, 0, map[ssa.Value]bool{}) {
					return true
				}
			}
			return false
		}
		// the functions a call site may run: its static callee, or — for the call of a function
		// parameter inside a synchronous combinator (retry(fn)) — the function values handed in
		paramTargets := map[*ssa.Parameter][]*ssa.Function{}
		for _, fn := range w.ModFns {
			w.eachInstr(fn, func(in ssa.Instruction) {
				call, ok := in.(*ssa.Call)
				if !ok {
					return
				}
				h := call.Call.StaticCallee()
				if h == nil || !w.IsMod[h] {
					return
				}
				for i, a := range call.Call.Args {
					var body *ssa.Function
					switch x := a.(type) {
					case *ssa.MakeClosure:
						body = w.closureBody(x)
					case *ssa.Function:
						body = x
					}
					if body != nil && w.invokesParam(h, i) {
						paramTargets[h.Params[i]] = append(paramTargets[h.Params[i]], body)
					}
				}
			})
		}
		calleesOf := func(cs ssa.CallInstruction) []*ssa.Function {
			if cal := cs.Common().StaticCallee(); cal != nil {
				return []*ssa.Function{cal}
			}
			if p, ok := cs.Common().Value.(*ssa.Parameter); ok && !cs.Common().IsInvoke() {
				return paramTargets[p]
			}
			// a local function variable (refresh := a.refreshPermissions / a literal, chosen by
			// a switch): the functions it can hold
			if !cs.Common().IsInvoke() {
				return w.localFuncTargets(cs.Common().Value)
			}
			return nil
		}
		// retried(call): the result of this call is tested against the sentinel and, on the
		// sentinel edge, the call (or another call of the same function) is made again
		retried := func(call *ssa.Call) bool {
			caller := call.Parent()
			okLoop := false
			w.eachInstr(caller, func(in ssa.Instruction) {
				// errors.Is(err, errTryAgain) or err == errTryAgain
				var tested ssa.Value
				switch x := in.(type) {
				case *ssa.Call:
					if x.Call.StaticCallee() != nil && x.Call.StaticCallee().String() == "errors.Is" {
						if g := globalLoad(x.Call.Args[1]); g != nil && nm(g) == "errTryAgain" {
							tested = x.Call.Args[0]
						}
					}
				case *ssa.BinOp:
					if x.Op == token.EQL || x.Op == token.NEQ {
						if g := globalLoad(x.Y); g != nil && nm(g) == "errTryAgain" {
							tested = x.X
						} else if g := globalLoad(x.X); g != nil && nm(g) == "errTryAgain" {
							tested = x.Y
						}
					}
				}
				if tested == nil {
					return
				}
				if !w.dependsOn(tested, func(v ssa.Value) bool {
					if v == ssa.Value(call) {
						return true
					}
					ex, ok := v.(*ssa.Extract)
					return ok && ex.Tuple == ssa.Value(call)
				}, caller) {
					return
				}
				if blockReaches(call.Block(), call.Block()) {
					okLoop = true
					return
				}
				// the retry may be a second call site (first attempt before the loop,
				// further attempts inside it): from the edge on which the result is the
				// sentinel another call of the same function is reachable
				tv, _ := in.(ssa.Value)
				for _, b := range caller.Blocks {
					iff, isIf := b.Instrs[len(b.Instrs)-1].(*ssa.If)
					if !isIf || len(b.Succs) != 2 || b.Succs[0] == b.Succs[1] {
						continue
					}
					for i, succ := range b.Succs {
						isSentinelEdge := false
						for _, f := range normCond(iff.Cond, i == 0) {
							switch {
							case f.Op == "true" && f.Truth && f.X == tv:
								isSentinelEdge = true
							case f.Op == "==" && f.Truth:
								if bo, isBO := tv.(*ssa.BinOp); isBO && ((f.X == bo.X && f.Y == bo.Y) || (f.X == bo.Y && f.Y == bo.X)) {
									isSentinelEdge = true
								}
							}
						}
						if !isSentinelEdge {
							continue
						}
						for _, b2 := range caller.Blocks {
							for _, i2 := range b2.Instrs {
								cs2, isCall := i2.(*ssa.Call)
								if !isCall || !(b2 == succ || blockReaches(succ, b2)) {
									continue
								}
								for _, t1 := range calleesOf(call) {
									for _, t2 := range calleesOf(cs2) {
										if t1 == t2 {
											okLoop = true
										}
									}
								}
							}
						}
					}
				}
			})
			return okLoop
		}
		isSentinelSite := func(cs ssa.CallInstruction) bool {
			if dontWaitSite(cs) {
				return false
			}
			for _, t := range calleesOf(cs) {
				if sentinelFns[t] {
					return true
				}
			}
			return false
		}
		for changed := true; changed; {
			changed = false
			for _, fn := range w.ModFns {
				if sentinelFns[fn] {
					continue
				}
				for _, r := range returnsOf(fn) {
					if len(r.Results) == 0 {
						continue
					}
					if g := globalLoad(w.resolveLoad(r.Results[len(r.Results)-1])); g != nil && nm(g) == "errTryAgain" {
						sentinelFns[fn] = true
						changed = true
					}
				}
				if sentinelFns[fn] {
					continue
				}
				w.eachInstr(fn, func(in ssa.Instruction) {
					cs, ok := in.(ssa.CallInstruction)
					if !ok || sentinelFns[fn] {
						return
					}
					if isSentinelSite(cs) && forwards(cs) {
						// a site that retries absorbs the sentinel: what it hands on after the last
						// attempt is a failure, not a request to try again
						if call, isCall := cs.(*ssa.Call); isCall && retried(call) {
							return
						}
						sentinelFns[fn] = true
						changed = true
					}
				})
			}
		}
		// call sites that consume the sentinel must retry
		type attempt struct {
			site *ssa.Call
			fn   *ssa.Function
		}
		var attempts []attempt
		for _, caller := range w.ModFns {
			if caller.Synthetic != "" {
				continue // promoted-method / bound-method wrapper
			}
			w.eachInstr(caller, func(in ssa.Instruction) {
				cs, ok := in.(ssa.CallInstruction)
				if !ok {
					return
				}
				var sfs []*ssa.Function
				for _, t := range calleesOf(cs) {
					if sentinelFns[t] {
						sfs = append(sfs, t)
					}
				}
				if len(sfs) == 0 {
					return
				}
				call, _ := cs.(*ssa.Call)
				names := fnNames(sfs)
				// a Refresh sent with dontWait=true does not process a response: no 438 can come back
				if dontWaitSite(cs) {
					c.Triv("C14.3", fname(caller), "retry "+names, w.instrPos(cs), "dontWait=true: the response is not awaited, nothing to retry")
					return
				}
				if call != nil && retried(call) {
					c.Anchor("C14.3", "caller "+fname(caller))
					c.OK("C14.3", fname(caller), "retry "+names, w.instrPos(cs), "retries while errors.Is(err, errTryAgain), in a loop")
					for _, t := range sfs {
						attempts = append(attempts, attempt{call, t})
					}
					return
				}
				if forwards(cs) {
					return // hands the sentinel on to its own caller
				}
				c.Anchor("C14.3", "caller "+fname(caller))
				c.Bad("C14.3", fname(caller), "retry "+names, w.instrPos(cs), "a caller of "+names+" neither forwards nor retries on the stale-nonce sentinel: after the server's nonce expires (one hour) this refresh fails for good")
			})
		}

		// ---- C14.7
		c.Rule("C14.7", "a retry carries the new nonce: in every function run as one attempt of a stale-nonce retry loop (the callee of the retried call, or the function value handed to the retry combinator), every path (helpers inlined) to a PerformTransaction call reads the allocation's current nonce (allocation.nonce() / the _nonce field) within that attempt: a request built once outside the loop would be re-sent with the nonce the server has just rejected", 3)
		{
			nonceFn := w.Func("client", "allocation", "nonce")
			isNonceRead := func(in ssa.Instruction) bool {
				if staticCallee(in) == nonceFn {
					return true
				}
				if u, ok := in.(*ssa.UnOp); ok && u.Op == token.MUL {
					if fa, ok := u.X.(*ssa.FieldAddr); ok && nm(fieldOf(fa)) == "_nonce" {
						return true
					}
				}
				return false
			}
			isPerform := func(in ssa.Instruction) bool {
				ci, ok := in.(ssa.CallInstruction)
				if !ok {
					return false
				}
				if ci.Common().IsInvoke() {
					return ci.Common().Method.Name() == "PerformTransaction"
				}
				cal := ci.Common().StaticCallee()
				return cal != nil && cal.Name() == "PerformTransaction" && fnPkgPath(cal) == modPath
			}
			may := w.mayContain(func(in ssa.Instruction) bool { return isNonceRead(in) || isPerform(in) })
			clientPkg := w.tpkg("client").Path()
			done := map[*ssa.Function]bool{}
			for _, at := range attempts {
				if done[at.fn] {
					continue
				}
				done[at.fn] = true
				c.Anchor("C14.7", "attempt "+fname(at.fn))
				bad := ""
				nPerform := 0
				cfg := &ipCfg[bool]{w: w}
				cfg.Inline = func(_ ssa.CallInstruction, h *ssa.Function) bool {
					return w.IsMod[h] && fnPkgPath(h) == clientPkg && may(h)
				}
				cfg.Return = func(*ssa.Return, bool, *pathEnv) {}
				cfg.Step = func(in ssa.Instruction, read bool, env *pathEnv, _ []ssa.CallInstruction) bool {
					if _, isGo := in.(*ssa.Go); isGo {
						return read
					}
					if isNonceRead(in) {
						return true
					}
					if isPerform(in) {
						nPerform++
						if !read {
							bad = "the request sent at " + w.instrPos(in) + " can be one that was built before this attempt began: no read of the allocation's nonce on the path from the start of the attempt (" + fname(at.fn) + ") to the send, so the retry after a 438 repeats the rejected nonce"
						}
					}
					return read
				}
				explorePaths(cfg, at.fn, false)
				switch {
				case cfg.Exhausted:
					c.Bad("C14.7", fname(at.fn), "attempt", w.pos(at.fn.Pos()), "undecided: path exploration exceeded its budget")
				case bad != "":
					c.Bad("C14.7", fname(at.fn), "attempt", w.pos(at.fn.Pos()), bad)
				case nPerform == 0:
					c.Bad("C14.7", fname(at.fn), "attempt", w.pos(at.fn.Pos()), "the retried function reaches no PerformTransaction: anchor gone")
				default:
					c.OK("C14.7", fname(at.fn), "attempt", w.pos(at.fn.Pos()), fmt.Sprintf("the nonce is read anew before the send on each of the %d explored sends", nPerform))
				}
			}
		}
	}

	// ---- C14.5
	ruleLateResponsesIgnored(c, "C14.5")
	// ---- C14.6: the releasing Refresh is fire-and-forget; it is retransmitted only if its timer is armed
	ruleTransactionPairing(c, "C14.6")
	// ---- C14.8: a binding's refresh timestamp moves only on a confirmed bind
	ruleBindingFreshness(c, "C14.8")
	ruleDueBindingIsSent(c, "C14.9")
	// the retransmission timer is re-armed without blocking (=C12.9)
	ruleNoReceiveOnAfterFuncTimer(c, "C14.10")
	ruleNoBindingDeletion(c, "C14.11")

	// ---- C14.4
	c.Rule("C14.4", "release on Close: in UDPConn.Close every path past the already-closed return, and in TCPAllocation.Close every path, ends by calling refreshAllocation(0, …) with the constant lifetime 0; in refreshAllocation every return of a nil error is preceded on all paths by the PerformTransaction call", 3)
	{
		ra := w.Func("client", "allocation", "refreshAllocation")
		for _, tn := range []string{"UDPConn", "TCPAllocation"} {
			cl := w.Func("client", tn, "Close")
			c.Anchor("C14.4", tn+".Close")
			bad := ""
			n := 0
			isRefresh0 := func(in ssa.Instruction) bool {
				rc, ok := in.(*ssa.Call)
				if !ok || rc.Call.StaticCallee() != ra {
					return false
				}
				k, isK := constInt(w.resolveLoad(rc.Call.Args[1]))
				return isK && k == 0
			}
			// mustRefresh: every return of fn that is not the already-closed guard is preceded on
			// all paths by refreshAllocation(0, …), directly or in a helper held to the same rule
			memo := map[*ssa.Function]int{}
			var mustRefresh func(fn *ssa.Function, count bool) bool
			mustRefresh = func(fn *ssa.Function, count bool) bool {
				switch memo[fn] {
				case 1:
					return false
				case 2:
					return true
				}
				memo[fn] = 1
				hit := func(in ssa.Instruction) bool {
					if isRefresh0(in) {
						return true
					}
					if call, ok := in.(*ssa.Call); ok {
						if h := call.Call.StaticCallee(); h != nil && h != ra && w.IsMod[h] && len(h.Blocks) > 0 && h.Object() != nil && !h.Object().Exported() {
							return mustRefresh(h, false)
						}
					}
					return false
				}
				okAll := true
				for _, r := range returnsOf(fn) {
					if len(r.Results) == 0 {
						okAll = false
						continue
					}
					// the already-closed guard returns errAlreadyClosed
					guard := true
					for _, lf := range w.guardedLeaves(r.Results[len(r.Results)-1], r) {
						if g := globalLoad(w.resolveLoad(lf.val)); g == nil || !strings.Contains(g.Name(), "AlreadyClosed") {
							guard = false
						}
					}
					if guard {
						continue
					}
					if count {
						n++
					}
					if !allPathsTo(fn, r.Block(), hit) {
						okAll = false
						if bad == "" && count {
							bad = "the return at " + w.instrPos(r) + " does not send Refresh with lifetime 0: the allocation stays at the server until it expires"
						}
					}
				}
				if okAll {
					memo[fn] = 2
				}
				return okAll
			}
			if !mustRefresh(cl, true) && bad == "" {
				bad = "a closing path does not send Refresh with lifetime 0"
			}
			if bad == "" && n > 0 {
				c.OK("C14.4", fname(cl), "Refresh(0)", w.pos(cl.Pos()), "returns refreshAllocation(0, dontWait)")
			} else {
				if bad == "" {
					bad = "no closing return"
				}
				c.Bad("C14.4", fname(cl), "Refresh(0)", w.pos(cl.Pos()), bad)
			}
		}
		c.Anchor("C14.4", "refreshAllocation sends")
		bad := ""
		for _, r := range returnsOf(ra) {
			if !isNilConst(w.resolveLoad(r.Results[0])) {
				continue
			}
			if !allPathsTo(ra, r.Block(), func(in ssa.Instruction) bool {
				call, ok := in.(*ssa.Call)
				return ok && call.Call.IsInvoke() && call.Call.Method.Name() == "PerformTransaction"
			}) {
				bad = "refreshAllocation can return nil at " + w.instrPos(r) + " without having sent a Refresh request"
			}
		}
		if bad == "" {
			c.OK("C14.4", fname(ra), "sends", w.pos(ra.Pos()), "every nil return is preceded by PerformTransaction")
		} else {
			c.Bad("C14.4", fname(ra), "sends", w.pos(ra.Pos()), bad)
		}
	}
}

func fnNames(fs []*ssa.Function) string {
	var ns []string
	for _, f := range fs {
		ns = append(ns, f.Name())
	}
	sort.Strings(ns)
	return strings.Join(ns, "/")
}

// dontWaitSite: a refreshAllocation(…, true) call: the response is not awaited.
func dontWaitSite(cs ssa.CallInstruction) bool {
	cal := cs.Common().StaticCallee()
	if cal == nil || nm(cal) != "refreshAllocation" || len(cs.Common().Args) != 3 {
		return false
	}
	if k, ok := cs.Common().Args[2].(*ssa.Const); ok && k.Value != nil && k.Value.Kind() == constant.Bool {
		return constant.BoolVal(k.Value)
	}
	// the mode may be an enum or a small struct: what matters is the ignoreResult argument of
	// the PerformTransaction call(s) the callee makes, evaluated with this site's constants
	call, ok := cs.(*ssa.Call)
	if !ok || theWorld == nil {
		return false
	}
	w := theWorld
	n, nTrue := 0, 0
	w.eachInstrDeep(cal, func(in ssa.Instruction) {
		pc, ok := in.(*ssa.Call)
		if !ok || !pc.Call.IsInvoke() || pc.Call.Method.Name() != "PerformTransaction" || len(pc.Call.Args) != 3 {
			return
		}
		n++
		q := &srcQuery{w: w, complete: true, budget: 300, seenPhi: map[*ssa.Phi]bool{}}
		k, ok := q.constOf(pc.Call.Args[2], []srcFrame{{cal, call}}, nil)
		if os.Getenv("TURNCHECK_SRCDEBUG") != "" {
			fmt.Fprintf(os.Stderr, "dontWaitSite %s: arg %s const=%v ok=%v\n", w.instrPos(cs), w.key(pc.Call.Args[2]), k, ok)
		}
		if ok && k.Value != nil && k.Value.Kind() == constant.Bool && constant.BoolVal(k.Value) {
			nTrue++
		}
	})
	return n > 0 && n == nTrue
}

// defaultOfOr: v is cmp.Or(configured…, K) — the first non-zero argument — with a constant
// last argument: K is the default that replaces a zero configuration.
func defaultOfOr(w *World, v ssa.Value) (int64, bool) {
	call, _ := stripIface(w.resolveLoad(v)).(*ssa.Call)
	els := orArgs(call)
	if len(els) < 2 {
		return 0, false
	}
	return constInt(els[len(els)-1])
}

// errIdentityFlows: the error value v IS (in the sense of errors.Is) a value satisfying src:
// the value itself, a phi or local variable that can hold it, a fmt.Errorf that wraps it with
// %w, an errors.Join over it, or a module helper that hands one of its arguments on in such a
// way. Formatting it with %s/%v, or taking its Error() text, loses the identity.
func (w *World) errIdentityFlows(v ssa.Value, src func(ssa.Value) bool, depth int, seen map[ssa.Value]bool) bool {
	if v == nil || depth > 6 || seen[v] {
		return false
	}
	seen[v] = true
	if src(v) {
		return true
	}
	switch x := v.(type) {
	case *ssa.MakeInterface:
		return w.errIdentityFlows(x.X, src, depth, seen)
	case *ssa.ChangeInterface:
		return w.errIdentityFlows(x.X, src, depth, seen)
	case *ssa.ChangeType:
		return w.errIdentityFlows(x.X, src, depth, seen)
	case *ssa.Phi:
		for _, e := range x.Edges {
			if w.errIdentityFlows(e, src, depth, seen) {
				return true
			}
		}
	case *ssa.UnOp:
		if x.Op == token.MUL {
			if _, isAl := x.X.(*ssa.Alloc); isAl {
				for _, st := range w.stores[w.locKey(x.X)] {
					if st.Parent() == x.Parent() && w.errIdentityFlows(st.Val, src, depth, seen) {
						return true
					}
				}
			}
		}
	case *ssa.Extract:
		if call, ok := x.Tuple.(*ssa.Call); ok {
			return w.errIdentityThroughCall(call, x.Index, src, depth, seen)
		}
	case *ssa.Call:
		return w.errIdentityThroughCall(x, 0, src, depth, seen)
	}
	return false
}

func (w *World) errIdentityThroughCall(call *ssa.Call, idx int, src func(ssa.Value) bool, depth int, seen map[ssa.Value]bool) bool {
	switch stdCallee(&call.Call) {
	case "fmt.Errorf":
		if len(call.Call.Args) != 2 {
			return false
		}
		format, ok := call.Call.Args[0].(*ssa.Const)
		if !ok || format.Value == nil || format.Value.Kind() != constant.String {
			return false
		}
		verbs := formatVerbs(constant.StringVal(format.Value))
		els := variadicElemsOrdered(call.Call.Args[1])
		for i, e := range els {
			if i < len(verbs) && verbs[i] == 'w' && w.errIdentityFlows(e, src, depth+1, seen) {
				return true
			}
		}
		return false
	case "errors.Join":
		if len(call.Call.Args) == 1 {
			for _, e := range variadicElemsOrdered(call.Call.Args[0]) {
				if w.errIdentityFlows(e, src, depth+1, seen) {
					return true
				}
			}
		}
		return false
	}
	h := call.Call.StaticCallee()
	if h == nil || !w.IsMod[h] || len(h.Blocks) == 0 {
		return false
	}
	// a module helper that hands one of its (error) arguments on
	for j, a := range call.Call.Args {
		if j >= len(h.Params) || !w.errIdentityFlows(a, src, depth+1, seen) {
			continue
		}
		p := h.Params[j]
		for _, r := range returnsOf(h) {
			if idx < len(r.Results) && w.errIdentityFlows(r.Results[idx], func(v ssa.Value) bool { return v == ssa.Value(p) }, depth+1, map[ssa.Value]bool{}) {
				return true
			}
		}
	}
	return false
}

// formatVerbs: the verb letters of a Printf-style format, one per operand consumed (%% and
// explicit argument indexes are not used in this module's error formats).
func formatVerbs(f string) []byte {
	var out []byte
	for i := 0; i < len(f); i++ {
		if f[i] != '%' {
			continue
		}
		i++
		for i < len(f) && strings.IndexByte("+-# 0123456789.", f[i]) >= 0 {
			i++
		}
		if i < len(f) && f[i] != '%' {
			out = append(out, f[i])
		}
	}
	return out
}

// ruleDueBindingIsSent (C14.9): once a binding has been moved to the "request" or "refresh"
// state — it was found new, or due for its periodic refresh — a ChannelBind attempt is
// started on every path before the function returns. A path that moves the state (or finds
// the binding due) and then returns without starting the attempt — because some budget,
// semaphore or other gate said "later" — leaves the refresh to the next periodic check, and
// with enough peers the server's channel lifetime runs out first while the client still
// believes the channel is bound.
func ruleDueBindingIsSent(c *Ctx, rule string) {
	w := c.W
	c.Rule(rule, "a due binding is sent: on every path of UDPConn.maybeBind (helpers inlined) on which the binding's state was set to bindingStateRequest or bindingStateRefresh, a ChannelBind attempt (a call or go statement that reaches UDPConn.bind) is started before the return", 1)
	maybe := w.Func("client", "UDPConn", "maybeBind")
	bind := w.Func("client", "UDPConn", "bind")
	setState := w.Func("client", "binding", "setState")
	stReq, stRef := w.ConstInt("client", "bindingStateRequest"), w.ConstInt("client", "bindingStateRefresh")
	c.Anchor(rule, "maybeBind")
	callsBind := w.mayContain(func(in ssa.Instruction) bool { return staticCallee(in) == bind })
	// (a function literal that calls bind and is handed to a retry combinator counts as well)
	reachesBind := w.mayContain(func(in ssa.Instruction) bool {
		if staticCallee(in) == bind {
			return true
		}
		if mc, ok := in.(*ssa.MakeClosure); ok {
			if body := w.closureBody(mc); body != nil && callsBind(body) {
				return true
			}
		}
		return false
	})
	isMove := func(in ssa.Instruction) bool {
		call, ok := in.(*ssa.Call)
		if !ok || call.Call.StaticCallee() != setState || len(call.Call.Args) < 2 {
			return false
		}
		k, isK := constInt(call.Call.Args[1])
		return isK && (k == stReq || k == stRef)
	}
	mayMove := w.mayContain(isMove)
	clientPkg := w.tpkg("client").Path()
	type st struct{ moved, started bool }
	cfg := &ipCfg[st]{w: w, StepGo: true}
	cfg.Inline = func(ci ssa.CallInstruction, h *ssa.Function) bool {
		if _, isGo := ci.(*ssa.Go); isGo {
			return false
		}
		return w.IsMod[h] && fnPkgPath(h) == clientPkg && (mayMove(h) || reachesBind(h)) && h != bind
	}
	bad := ""
	nMoved := 0
	cfg.Step = func(in ssa.Instruction, s st, _ *pathEnv, _ []ssa.CallInstruction) st {
		if isMove(in) {
			s.moved = true
		}
		if ci, ok := in.(ssa.CallInstruction); ok {
			h := calleeOfCI(ci)
			if h == nil {
				if mc, isMC := ci.Common().Value.(*ssa.MakeClosure); isMC {
					h = w.closureBody(mc)
				}
			}
			if h != nil && (h == bind || reachesBind(h)) {
				if _, isGo := in.(*ssa.Go); isGo || h == bind {
					s.started = true
				}
			}
		}
		return s
	}
	cfg.Return = func(r *ssa.Return, s st, _ *pathEnv) {
		if s.moved {
			nMoved++
			if !s.started {
				bad = "a path that moves the binding to the request/refresh state returns at " + w.instrPos(r) + " without starting a ChannelBind attempt"
			}
		}
	}
	explorePaths(cfg, maybe, st{})
	switch {
	case cfg.Exhausted:
		c.Bad(rule, fname(maybe), "maybeBind", w.pos(maybe.Pos()), "undecided: path exploration exceeded its budget")
	case bad != "":
		c.Bad(rule, fname(maybe), "maybeBind", w.pos(maybe.Pos()), bad+": the refresh waits for the next periodic check, and with many peers the server-side channel lifetime runs out while the client still sends ChannelData on it")
	case nMoved == 0:
		c.Bad(rule, fname(maybe), "maybeBind", w.pos(maybe.Pos()), "no path moves a binding to the request/refresh state: anchor gone")
	default:
		c.OK(rule, fname(maybe), "maybeBind", w.pos(maybe.Pos()), fmt.Sprintf("every one of the %d paths that mark the binding as being (re)bound starts the attempt", nMoved))
	}
}
