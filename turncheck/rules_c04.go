package main

import (
	"fmt"
	"go/token"
	"go/types"
	"os"
	"sort"
	"strings"

	"golang.org/x/tools/go/ssa"
)

func init() {
	register(&propDef{
		ID:        "C04",
		Title:     "Allocations are isolated by 5-tuple",
		Technique: "key-agreement check on the allocation table, literal provenance of every 5-tuple handed to the manager, dependency slice of the fingerprint function, who-may-obtain analysis of *Allocation values",
		Explanation: "C04.1 every lookup/update/delete on Manager.allocations is keyed by (*FiveTuple).Fingerprint() of the tuple parameter in hand, and the allocation stored carries that same tuple; " +
			"C04.2 every *FiveTuple handed to the manager from package server is the literal {SrcAddr: req.SrcAddr, DstAddr: req.Conn.LocalAddr(), Protocol: UDP} of the same request, the Request itself is built in readLoop from (conn, source of that read, bytes of that read), and the teardown tuple of a stream connection is built from RemoteAddr()/LocalAddr() of the connection whose loop just ended; " +
			"C04.3 the fingerprint's five fields are each written from the corresponding component (source IP, source port, destination IP, destination port, protocol) and netAddrIPAndPort depends on IP and Port; " +
			"C04.4 (=C02.4) peer traffic is written only to the owner's a.fiveTuple.SrcAddr over a.TurnSocket; " +
			"C04.5 the insert into Manager.allocations is dominated by GetAllocation(fiveTuple)==nil, and the Allocate handler calls CreateAllocation only when GetAllocation(request tuple)==nil; " +
			"C04.7 (=C16.2) a ConnectionBind naming another user's connection id has no effect on that connection: the single-use flag is consumed only after the user test; " +
			"C04.8 every table shared by the clients of a listener (map fields of Manager, Server, Request) is keyed by a type that is or contains the 5-tuple fingerprint; " +
			"C04.6 package server obtains *Allocation values only from the keyed lookups and CreateAllocation; " +
			"C04.9 requests are handled on the read loop's own goroutine, or a hand-off to goroutines is conditioned on a per-5-tuple busy table. C04.10 (=C06.9) Manager.DeleteAllocation is called only where an allocation's own life ends (closed set of call sites classified by what is deleted and under which condition). C04.11 (=C20.4) SO_REUSEPORT only on the TCP paths: no two live allocations share a relayed address. C04.12 (=C03.4) effects of the owner-gated handlers, deferred ones included, are dominated by the owner lookup.",
		NotCovered: "interleavings beyond the necessary condition of C04.9 (that a per-client busy table is maintained correctly; the check-then-insert window between GetAllocation and the insert if handlers of one 5-tuple did run concurrently); cross-talk through operator callbacks.",
		Run:        runC04,
	})
}

func runC04(c *Ctx) {
	ruleAllocTableKeys(c, "C04.1")
	ruleRequestTuples(c, "C04.2")
	ruleFingerprintDeps(c, "C04.3")
	ruleClientSocketWritesDstOnly(c, "C04.4")
	ruleUniqueTuple(c, "C04.5")
	ruleAllocSources(c, "C04.6")
	ruleSingleUseOwner(c, "C04.7")
	ruleSharedStateKeyedByTuple(c, "C04.8")
	ruleOneHandlerPerTuple(c, "C04.9")
	ruleWhoMayDeleteAllocation(c, "C04.10")
	ruleReusePortSites(c, "C04.11")
	ruleOwnerCheck(c, "C04.12", c.W.authedHandlers(nil, "C04.12"))
}

// ruleOneHandlerPerTuple (C04.9). The handlers decide by check-then-act on the allocation table
// (Allocate: "is this 5-tuple taken?" … then CreateAllocation; Refresh: look up, then delete).
// That is sound because the requests of one 5-tuple are handled one after the other: a packet
// listener handles everything on its read loop, a stream connection has its own loop. A server
// that hands requests to other goroutines keeps this only if the hand-off is sequenced per
// 5-tuple. Necessary condition checked here: every `go` statement (in the root package, reached
// from readLoop) whose goroutine reaches server.HandleRequest is control-dependent — directly or
// through the result of a helper — on a lookup in a map keyed by allocation.FiveTupleFingerprint
// (the per-client busy table). Not checked: that the table is maintained correctly.
func ruleOneHandlerPerTuple(c *Ctx, rule string) {
	w := c.W
	c.Rule(rule, "one handler per 5-tuple at a time: server.HandleRequest runs on the read loop's own goroutine, or, where readLoop hands requests to goroutines, each such `go` statement is control-dependent on a lookup in a map keyed by FiveTupleFingerprint (a per-client busy table)", 1)
	rl := w.Func("turn", "Server", "readLoop")
	handle := w.Func("server", "", "HandleRequest")
	fpT := w.Named("allocation", "FiveTupleFingerprint")
	c.Anchor(rule, "readLoop hand-off")
	rootPath := fnPkgPath(rl)
	reach := map[*ssa.Function]bool{}
	var visit func(f *ssa.Function)
	visit = func(f *ssa.Function) {
		if f == nil || reach[f] || len(f.Blocks) == 0 || fnPkgPath(f) != rootPath {
			return
		}
		reach[f] = true
		for _, a := range f.AnonFuncs {
			visit(a)
		}
		w.eachInstr(f, func(in ssa.Instruction) {
			if ci, ok := in.(ssa.CallInstruction); ok {
				visit(ci.Common().StaticCallee())
			}
		})
	}
	visit(rl)
	reachesHandle := w.mayContain(func(in ssa.Instruction) bool {
		ci, ok := in.(ssa.CallInstruction)
		return ok && ci.Common().StaticCallee() == handle
	})
	isBusyLookup := func(x ssa.Value, _ []*ssa.Call) bool {
		lk, ok := x.(*ssa.Lookup)
		if !ok {
			return false
		}
		m, isMap := lk.X.Type().Underlying().(*types.Map)
		return isMap && namedOf(m.Key()) == fpT
	}
	n := 0
	for _, fn := range sortedFns(reach) {
		w.eachInstr(fn, func(in ssa.Instruction) {
			g, ok := in.(*ssa.Go)
			if !ok {
				return
			}
			var body *ssa.Function
			if mc, isMC := g.Call.Value.(*ssa.MakeClosure); isMC {
				body = w.closureBody(mc)
			} else {
				body = g.Call.StaticCallee()
			}
			if body == nil || !reachesHandle(body) {
				return
			}
			n++
			seq := false
			for _, f := range w.factsAt(g) {
				for _, v := range []ssa.Value{f.X, f.Y} {
					if v != nil && !seq && w.depWalk(v, nil, isBusyLookup) {
						seq = true
					}
				}
			}
			if seq {
				c.OK(rule, fname(fn), "hand-off", w.instrPos(in), "the goroutine is started only on the outcome of a lookup in a table keyed by the request's 5-tuple fingerprint")
			} else {
				c.Bad(rule, fname(fn), "hand-off", w.instrPos(in), "requests are handed to a goroutine here without any per-5-tuple sequencing: two requests of one client (an Allocate and its retransmission) run through the handlers' check-then-act on the allocation table at the same time — one 5-tuple can end up with two allocations, one of them orphaned")
			}
		})
	}
	if n == 0 {
		c.OK(rule, fname(rl), "hand-off", w.pos(rl.Pos()), "requests are handled on the read loop's own goroutine")
	}
}

func ruleAllocTableKeys(c *Ctx, rule string) {
	w := c.W
	c.Rule(rule, "key agreement: every index, update and delete on Manager.allocations uses (*FiveTuple).Fingerprint() applied to a *FiveTuple parameter of the enclosing function; the allocation inserted was constructed with that same tuple", 4)
	fld := w.Field("allocation", "Manager", "allocations")
	fp := w.Func("allocation", "FiveTuple", "Fingerprint")
	newAlloc := w.Func("allocation", "", "NewAllocation")
	keyOK := func(k ssa.Value, fn *ssa.Function) (ssa.Value, string) {
		call, _ := callOf(w.resolveLoad(k))
		if call == nil || call.Call.StaticCallee() != fp {
			return nil, "key " + w.desc(k) + " is not a Fingerprint() call"
		}
		recv := stripIface(w.resolveLoad(call.Call.Args[0]))
		root := w.bodyRoot(fn)
		for _, p := range root.Params {
			if isPtrToNamed(p.Type(), w.Named("allocation", "FiveTuple")) && w.sameKey(recv, p) {
				return p, ""
			}
		}
		return nil, "Fingerprint() receiver " + w.key(recv) + " is not a tuple parameter of " + fname(root)
	}
	for _, fn := range w.ModFns {
		w.eachInstr(fn, func(in ssa.Instruction) {
			var m, k ssa.Value
			kind := ""
			switch x := in.(type) {
			case *ssa.Lookup:
				m, k, kind = x.X, x.Index, "lookup"
			case *ssa.MapUpdate:
				m, k, kind = x.Map, x.Key, "update"
			case *ssa.Call:
				if b, ok := x.Call.Value.(*ssa.Builtin); ok && b.Name() == "delete" {
					m, k, kind = x.Call.Args[0], x.Call.Args[1], "delete"
				}
			}
			if m == nil {
				return
			}
			if _, f, ok := fieldLoad(m); !ok || f != fld {
				return
			}
			c.Anchor(rule, fname(fn)+" "+kind)
			tuple, why := keyOK(k, fn)
			if tuple == nil {
				c.Bad(rule, fname(fn), "allocations "+kind, w.instrPos(in), why)
				return
			}
			if mu, ok := in.(*ssa.MapUpdate); ok {
				nc, _ := callOf(w.resolveLoad(mu.Value))
				if nc == nil || nc.Call.StaticCallee() != newAlloc || !w.sameKey(nc.Call.Args[1], tuple) {
					c.Bad(rule, fname(fn), "allocations "+kind, w.instrPos(in), "the allocation stored under Fingerprint("+w.key(tuple)+") was not constructed with that tuple: "+w.desc(mu.Value))
					return
				}
			}
			c.OK(rule, fname(fn), "allocations "+kind, w.instrPos(in), "keyed by "+w.key(tuple)+".Fingerprint()")
		})
	}
}

func ruleRequestTuples(c *Ctx, rule string) {
	w := c.W
	c.Rule(rule, "tuple provenance: every *FiveTuple argument of a Manager method called from package server is the request's own tuple literal; server.Request is built in readLoop with Conn = the loop's conn, SrcAddr = result #1 and Buff = buf[:result #0] of the same conn.ReadFrom; the teardown tuple in readListener is {conn.RemoteAddr(), conn.LocalAddr(), UDP} of the conn wrapped for the readLoop that just returned", 9)
	ft := w.Named("allocation", "FiveTuple")
	mgr := w.Named("allocation", "Manager")
	serverPath := w.tpkg("server").Path()
	for _, fn := range w.ModFns {
		if fnPkgPath(fn) != serverPath {
			continue
		}
		w.eachInstr(fn, func(in ssa.Instruction) {
			ci, ok := in.(ssa.CallInstruction)
			if !ok {
				return
			}
			cal := ci.Common().StaticCallee()
			if cal == nil || cal.Signature.Recv() == nil || !isPtrToNamed(cal.Signature.Recv().Type(), mgr) {
				return
			}
			for i, a := range ci.Common().Args {
				if i == 0 || !isPtrToNamed(a.Type(), ft) {
					continue
				}
				c.AnchorUp(rule, fn, "→"+cal.Name())
				if ok, why := w.requestTuple(a, fn); ok {
					c.OK(rule, fname(fn), cal.Name()+" tuple", w.instrPos(in), why)
				} else {
					// a stage shared by several handlers (a method of the per-request context
					// object): the tuple expressed at every handler the call is reached from
					isReq := func(r *ssa.Function) bool {
						return r != nil && len(r.Params) > 0 && strings.HasSuffix(r.Params[0].Type().String(), "server.Request")
					}
					nUp, okUp := 0, !isReq(w.bodyRoot(fn))
					if okUp {
						for _, lc := range w.liftCalls(cal, isReq, 5) {
							if lc.orig != ci {
								continue
							}
							nUp++
							if !isReq(lc.fn) || i >= len(lc.args) {
								okUp = false
								continue
							}
							if ok2, _ := w.requestTuple(lc.args[i], lc.fn); !ok2 {
								okUp = false
							}
						}
					}
					if okUp && nUp > 0 {
						c.OK(rule, fname(fn), cal.Name()+" tuple", w.instrPos(in), fmt.Sprintf("the request's own tuple at each of the %d handler call chains that reach this stage", nUp))
					} else {
						c.Bad(rule, fname(fn), cal.Name()+" tuple", w.instrPos(in), "manager is addressed with a tuple that is not the request's own: "+why)
					}
				}
			}
		})
	}
	// readLoop builds the Request
	{
		rl := w.Func("turn", "Server", "readLoop")
		c.Anchor(rule, "readLoop Request")
		rb := w.requestBuild()
		for _, p := range rb.problems {
			c.Bad(rule, fname(rl), "Request literal", w.pos(rl.Pos()), p)
		}
		for _, lit := range rb.lits {
			conn := lit.fields["Conn"]
			src := lit.fields["SrcAddr"]
			buf := lit.fields["Buff"]
			rc, ri := callOf(src)
			ok1 := conn != nil && w.sameKey(conn, rl.Params[1])
			ok2 := rc != nil && ri == 1 && rc.Call.IsInvoke() && rc.Call.Method.Name() == "ReadFrom" && conn != nil && w.sameKey(rc.Call.Value, conn)
			ok3 := false
			if sl, isS := stripIface(buf).(*ssa.Slice); isS && rc != nil {
				hc, hi := callOf(sl.High)
				ok3 = hc == rc && hi == 0 && sl.Low == nil && w.sameKey(sl.X, rc.Call.Args[0])
			}
			if ok1 && ok2 && ok3 {
				c.OK(rule, fname(rl), "Request literal", rb.at[lit], fmt.Sprintf("Conn = loop conn, SrcAddr = #1 and Buff = buf[:#0] of the same conn.ReadFrom(buf); the only place a Request is built, handled at %d call(s) of HandleRequest reached from the loop", len(rb.handles)))
			} else {
				c.Bad(rule, fname(rl), "Request literal", rb.at[lit], fmt.Sprintf("Request is not built from one read of the loop's conn (Conn ok=%v, SrcAddr ok=%v, Buff ok=%v)", ok1, ok2, ok3))
			}
		}
	}
	// teardown tuple in readListener
	{
		rlis := w.Func("turn", "Server", "readListener")
		del := w.Func("allocation", "Manager", "DeleteAllocation")
		newSC := w.Func("turn", "", "NewSTUNConn")
		rl := w.Func("turn", "Server", "readLoop")
		c.Anchor(rule, "readListener teardown")
		found := false
		for _, f := range w.helpersOf(rlis) {
			w.eachInstr(f, func(in ssa.Instruction) {
				call, ok := in.(*ssa.Call)
				if !ok || call.Call.StaticCallee() != del {
					return
				}
				found = true
				lit := w.literalOf(call.Call.Args[1])
				if lit == nil {
					c.Bad(rule, fname(f), "teardown tuple", w.instrPos(in), "DeleteAllocation argument is not a tuple literal")
					return
				}
				sc, _ := callOf(lit.fields["SrcAddr"])
				dc, _ := callOf(lit.fields["DstAddr"])
				okS := sc != nil && sc.Call.IsInvoke() && sc.Call.Method.Name() == "RemoteAddr"
				okD := dc != nil && dc.Call.IsInvoke() && dc.Call.Method.Name() == "LocalAddr" && okS && w.sameKey(dc.Call.Value, sc.Call.Value)
				okP := true
				if p := lit.fields["Protocol"]; p != nil {
					k, isC := constInt(p)
					okP = isC && k == 0
				}
				// the same conn was wrapped for the readLoop that dominates this call
				okL := false
				if okS {
					w.eachInstr(f, func(in2 ssa.Instruction) {
						c2, ok := in2.(*ssa.Call)
						if !ok || c2.Call.StaticCallee() != rl {
							return
						}
						nc, _ := callOf(c2.Call.Args[1])
						if os.Getenv("TURNCHECK_C04DEBUG") != "" && nc != nil {
							fmt.Fprintf(os.Stderr, "C04DBG loop conn key=%s teardown conn key=%s\n", w.key(nc.Call.Args[0]), w.key(sc.Call.Value))
						}
						if nc != nil && nc.Call.StaticCallee() == newSC && w.sameKey(nc.Call.Args[0], sc.Call.Value) && c2.Block().Dominates(call.Block()) {
							okL = true
						}
					})
				}
				if okS && okD && okP && okL {
					c.OK(rule, fname(f), "teardown tuple", w.instrPos(in), "{conn.RemoteAddr(), conn.LocalAddr(), UDP} of the connection whose readLoop(NewSTUNConn(conn)) just returned")
				} else {
					c.Bad(rule, fname(f), "teardown tuple", w.instrPos(in), fmt.Sprintf("control-connection teardown does not address exactly its own 5-tuple (src ok=%v dst ok=%v proto ok=%v same conn as loop=%v)", okS, okD, okP, okL))
				}
			})
		}
		if !found {
			c.Bad(rule, fname(rlis), "teardown tuple", w.pos(rlis.Pos()), "readListener no longer deletes the allocation of a closed control connection: anchor gone")
		}
	}
}

func ruleFingerprintDeps(c *Ctx, rule string) {
	w := c.W
	c.Rule(rule, "dependency: in Fingerprint (and the helpers it uses) the bytes written to srcIP/srcPort depend on f.SrcAddr only — on the IP resp. the Port of a UDP/TCP address —, dstIP/dstPort likewise on f.DstAddr, protocol on f.Protocol; every IP copied into a 16-byte key field is the To16() form (one address, one key)", 6)
	fn := w.Func("allocation", "FiveTuple", "Fingerprint")
	recv := fn.Params[0]
	fpField := func(addr ssa.Value) string {
		// &fp.X  or slice of &fp.X
		for {
			switch x := addr.(type) {
			case *ssa.Slice:
				addr = x.X
				continue
			case *ssa.FieldAddr:
				if n := namedOf(x.X.Type()); n != nil && nm(n.Obj()) == "FiveTupleFingerprint" {
					return nm(derefStruct(x.X.Type()).Field(x.Field))
				}
			}
			return ""
		}
	}
	written := map[string][]ssa.Value{}
	for _, body := range w.helpersOf(fn) {
		w.eachInstr(body, func(in ssa.Instruction) {
			switch x := in.(type) {
			case *ssa.Store:
				if f := fpField(x.Addr); f != "" {
					written[f] = append(written[f], x.Val)
				}
			case *ssa.Call:
				if b, ok := x.Call.Value.(*ssa.Builtin); ok && b.Name() == "copy" {
					if f := fpField(x.Call.Args[0]); f != "" {
						written[f] = append(written[f], x.Call.Args[1])
					}
				}
			}
		})
	}
	type want struct{ tuple, net string }
	wants := map[string]want{"srcIP": {"SrcAddr", "IP"}, "srcPort": {"SrcAddr", "Port"}, "dstIP": {"DstAddr", "IP"}, "dstPort": {"DstAddr", "Port"}, "protocol": {"Protocol", ""}}
	var names []string
	for k := range wants {
		names = append(names, k)
	}
	sort.Strings(names)
	for _, k := range names {
		c.Anchor(rule, "fp."+k)
		vals := written[k]
		if len(vals) == 0 {
			c.Bad(rule, fname(fn), "fp."+k, w.pos(fn.Pos()), "fingerprint field "+k+" is never written: two different 5-tuples can share a key")
			continue
		}
		tupleDeps, netDeps := map[string]bool{}, map[string]bool{}
		for _, v := range vals {
			w.depWalk(v, nil, func(x ssa.Value, _ []*ssa.Call) bool {
				if b, f, ok := fieldLoad(x); ok {
					if w.sameKey(b, recv) {
						tupleDeps[nm(f)] = true
					}
				}
				if fa, ok := x.(*ssa.FieldAddr); ok {
					if n := namedOf(fa.X.Type()); n != nil && n.Obj().Pkg() != nil && n.Obj().Pkg().Path() == "net" {
						netDeps[derefStruct(fa.X.Type()).Field(fa.Field).Name()] = true
					}
				}
				return false
			})
		}
		list := func(m map[string]bool) string {
			var out []string
			for k := range m {
				out = append(out, k)
			}
			sort.Strings(out)
			return strings.Join(out, ",")
		}
		wt := wants[k]
		okT := list(tupleDeps) == wt.tuple
		okN := wt.net == "" || list(netDeps) == wt.net
		if okT && okN {
			c.OK(rule, fname(fn), "fp."+k, w.pos(fn.Pos()), "depends on f."+wt.tuple+map[bool]string{true: " (" + wt.net + " of the address)", false: ""}[wt.net != ""])
		} else {
			c.Bad(rule, fname(fn), "fp."+k, w.pos(fn.Pos()), fmt.Sprintf("fingerprint field %s depends on tuple fields {%s} and address fields {%s}, expected {%s} / {%s}: two different 5-tuples can share a key (or one 5-tuple two keys)", k, list(tupleDeps), list(netDeps), wt.tuple, wt.net))
		}
	}
	// canonical IP form: every copy into a [16]byte key (in Fingerprint and what it calls)
	// takes a To16() result
	c.Anchor(rule, "netAddrIPAndPort")
	reach := map[*ssa.Function]bool{}
	var add func(f *ssa.Function, d int)
	add = func(f *ssa.Function, d int) {
		if reach[f] || !w.IsMod[f] || d > 3 {
			return
		}
		reach[f] = true
		w.eachInstr(f, func(in ssa.Instruction) {
			if cal := staticCallee(in); cal != nil {
				add(cal, d+1)
			}
		})
	}
	add(fn, 0)
	isTo16 := func(v ssa.Value) bool {
		call, _ := callOf(v)
		return call != nil && call.Call.StaticCallee() != nil && call.Call.StaticCallee().String() == "(net.IP).To16"
	}
	var allTo16 func(v ssa.Value, depth int) bool
	allTo16 = func(v ssa.Value, depth int) bool {
		if depth > 4 {
			return false
		}
		for _, lf := range w.guardedLeaves(v, nil) {
			x := w.resolveLoad(lf.val)
			if isNilConst(x) || isTo16(x) {
				continue
			}
			// a result of a module helper: all of that helper's returns
			if call, idx := callOf(x); call != nil && call.Call.StaticCallee() != nil && w.IsMod[call.Call.StaticCallee()] {
				if idx < 0 {
					idx = 0
				}
				ok := true
				for _, r := range returnsOf(call.Call.StaticCallee()) {
					if idx >= len(r.Results) || !allTo16(r.Results[idx], depth+1) {
						ok = false
					}
				}
				if ok {
					continue
				}
			}
			return false
		}
		return true
	}
	nCopies, badCopy := 0, ""
	for _, f := range sortedFns(reach) {
		w.eachInstr(f, func(in ssa.Instruction) {
			call, ok := in.(*ssa.Call)
			if !ok {
				return
			}
			b, isB := call.Call.Value.(*ssa.Builtin)
			if !isB || b.Name() != "copy" {
				return
			}
			base, _, _ := sliceRange(call.Call.Args[0])
			is16 := false
			t := base.Type()
			if p, isP := t.Underlying().(*types.Pointer); isP {
				t = p.Elem()
			}
			if arr, isArr := t.Underlying().(*types.Array); isArr && arr.Len() == 16 {
				is16 = true
			}
			if !is16 {
				return
			}
			nCopies++
			if !allTo16(call.Call.Args[1], 0) {
				badCopy = w.instrPos(in)
			}
		})
	}
	switch {
	case nCopies == 0:
		c.Bad(rule, fname(fn), "netAddrIPAndPort deps", w.pos(fn.Pos()), "no copy of an IP into a 16-byte key field found: anchor gone")
	case badCopy != "":
		c.Bad(rule, fname(fn), "netAddrIPAndPort deps", badCopy, "the IP copied into the 16-byte key is not ip.To16(): IPv4 and IPv6 spellings are no longer embedded injectively in the key (a 4-byte IPv4 address and an IPv6 address starting with the same bytes collide; one address in two spellings gets two keys)")
	default:
		c.OK(rule, fname(fn), "netAddrIPAndPort deps", w.pos(fn.Pos()), fmt.Sprintf("%d copies into 16-byte key fields, each of a To16() result", nCopies))
	}
}

// C04.4 shares the destination half of C02's client-socket rule.
func ruleClientSocketWritesDstOnly(c *Ctx, rule string) {
	ruleClientSocketWrites(c, rule+"g", rule)
}

func ruleUniqueTuple(c *Ctx, rule string) {
	w := c.W
	c.Rule(rule, "uniqueness: the MapUpdate on Manager.allocations in CreateAllocation is dominated by m.GetAllocation(fiveTuple)==nil for the tuple used as key; in the Allocate handler CreateAllocation(…, ft, …) is dominated by GetAllocation(ft)==nil for the same tuple", 2)
	get := w.Func("allocation", "Manager", "GetAllocation")
	create := w.Func("allocation", "Manager", "CreateAllocation")
	fld := w.Field("allocation", "Manager", "allocations")
	n := 0
	for _, body := range w.helpersOf(create) {
		w.eachInstr(body, func(in ssa.Instruction) {
			mu, ok := in.(*ssa.MapUpdate)
			if !ok {
				return
			}
			if _, f, ok := fieldLoad(mu.Map); !ok || f != fld {
				return
			}
			n++
			c.Anchor(rule, "CreateAllocation insert")
			kc, _ := callOf(w.resolveLoad(mu.Key))
			g := w.guardedBy(in, get, -1, "nil", func(g *ssa.Call) bool {
				return kc != nil && w.sameKey(g.Call.Args[0], create.Params[0]) && w.sameKey(g.Call.Args[1], kc.Call.Args[0])
			})
			if g != nil {
				c.OK(rule, fname(create), "insert", w.instrPos(in), "dominated by m.GetAllocation(fiveTuple) == nil")
			} else {
				c.Bad(rule, fname(create), "insert", w.instrPos(in), "an allocation is inserted without the duplicate test GetAllocation(fiveTuple)==nil: an existing allocation on the same 5-tuple would be silently replaced (and leaked)", w.factsDesc(in)...)
			}
		})
	}
	if n == 0 {
		c.Bad(rule, fname(create), "insert", w.pos(create.Pos()), "CreateAllocation no longer inserts into Manager.allocations: anchor gone")
	}
	for _, cs := range w.callsTo(create) {
		fn := cs.Parent()
		if fnPkgPath(fn) != w.tpkg("server").Path() {
			continue
		}
		c.Anchor(rule, "Allocate handler")
		args := cs.Common().Args
		g := w.guardedBy(cs, get, -1, "nil", func(g *ssa.Call) bool {
			return w.sameKey(g.Call.Args[0], args[0]) && w.sameKey(g.Call.Args[1], args[1])
		})
		if g != nil {
			c.OK(rule, fname(fn), "CreateAllocation", w.instrPos(cs), "dominated by GetAllocation(same tuple) == nil")
		} else {
			c.Bad(rule, fname(fn), "CreateAllocation", w.instrPos(cs), "CreateAllocation is reachable although an allocation may exist for the tuple (no dominating GetAllocation(ft)==nil)", w.factsDesc(cs)...)
		}
	}
}

// C04.6: where do *Allocation values in package server come from?
func ruleAllocSources(c *Ctx, rule string) {
	w := c.W
	c.Rule(rule, "sources: every *allocation.Allocation value used in package server is the result of Manager.GetAllocation, GetAllocationForUserID or CreateAllocation (no iteration over the table, no allocation taken from another object)", 6)
	alloc := w.Named("allocation", "Allocation")
	allowed := map[*ssa.Function]bool{
		w.Func("allocation", "Manager", "GetAllocation"):          true,
		w.Func("allocation", "Manager", "GetAllocationForUserID"): true,
		w.Func("allocation", "Manager", "CreateAllocation"):       true,
	}
	serverPath := w.tpkg("server").Path()
	for _, fn := range w.ModFns {
		if fnPkgPath(fn) != serverPath {
			continue
		}
		seen := map[ssa.Value]bool{}
		w.eachInstr(fn, func(in ssa.Instruction) {
			for _, op := range in.Operands(nil) {
				v := *op
				if v == nil || !isPtrToNamed(v.Type(), alloc) || seen[v] {
					continue
				}
				seen[v] = true
				root := w.allocRoot(v)
				call, _ := callOf(root)
				label := "alloc " + shortVal(v)
				if call != nil && allowed[call.Call.StaticCallee()] {
					c.AnchorUp(rule, fn, "")
					c.OK(rule, fname(fn), label, w.instrPos(in), "from "+call.Call.StaticCallee().Name())
					continue
				}
				// parameter of an unexported helper: every caller must pass an allowed allocation
				if p, isP := root.(*ssa.Parameter); isP && p.Parent().Object() != nil && !p.Parent().Object().Exported() {
					sites := w.callsTo(p.Parent())
					okAll := len(sites) > 0
					for _, cs := range sites {
						ar := w.allocRoot(cs.Common().Args[paramIndex(p)])
						ac, _ := callOf(ar)
						if ac == nil || !allowed[ac.Call.StaticCallee()] {
							okAll = false
						}
					}
					if okAll {
						c.OK(rule, fname(fn), label, w.instrPos(in), fmt.Sprintf("helper parameter: all %d callers pass an allocation from a keyed lookup", len(sites)))
						continue
					}
				}
				if isNilConst(root) {
					continue
				}
				// the result of a thin wrapper in this package (r.ownedAllocation(user)): every
				// allocation it can return comes from an allowed lookup
				var wrapped func(v ssa.Value, d int) bool
				wrapped = func(v ssa.Value, d int) bool {
					r := w.allocRoot(v)
					if isNilConst(r) {
						return true
					}
					wc, wi := callOf(r)
					if wc == nil || d > 3 {
						return false
					}
					h := wc.Call.StaticCallee()
					if allowed[h] {
						return true
					}
					if h == nil || !w.IsMod[h] || fnPkgPath(h) != serverPath || len(h.Blocks) == 0 {
						return false
					}
					if wi < 0 {
						wi = 0
					}
					n := 0
					for _, ret := range returnsOf(h) {
						if wi >= len(ret.Results) {
							return false
						}
						rv := w.resolveLoad(ret.Results[wi])
						if isNilConst(rv) {
							continue
						}
						n++
						if !wrapped(rv, d+1) {
							return false
						}
					}
					return n > 0
				}
				if wrapped(root, 0) {
					c.OK(rule, fname(fn), label, w.instrPos(in), "from a wrapper all of whose results come from a keyed lookup")
					continue
				}
				c.Bad(rule, fname(fn), label, w.instrPos(in), "an *Allocation reaches package server from "+w.desc(root)+" rather than from a lookup keyed by the request's 5-tuple")
			}
		})
	}
}

func shortVal(v ssa.Value) string { return v.Name() }

// allocRoot follows phis (all non-nil edges must agree), free variables and single-store
// locals to the producing value.
func (w *World) allocRoot(v ssa.Value) ssa.Value {
	for i := 0; i < 10; i++ {
		v = w.resolveLoad(stripIface(v))
		switch x := v.(type) {
		case *ssa.FreeVar:
			if b := w.binding(x); b != nil {
				v = b
				continue
			}
		case *ssa.UnOp:
			if x.Op == token.MUL {
				// captured local: single store
				if ss := w.stores[w.locKey(x.X)]; len(ss) == 1 {
					v = ss[0].Val
					continue
				}
			}
		case *ssa.Phi:
			var only ssa.Value
			okAll := true
			for _, e := range x.Edges {
				if isNilConst(e) {
					continue
				}
				if only != nil && !w.sameKey(only, e) {
					okAll = false
				}
				only = e
			}
			if okAll && only != nil {
				v = only
				continue
			}
		}
		return v
	}
	return v
}

var _ = types.Identical

// ruleSharedStateKeyedByTuple (C04.8): state that outlives one request and is shared by all
// clients of a listener lives in the Manager, the Server and the per-request context built
// from them. A table there whose key is not (or does not contain) the 5-tuple fingerprint is
// indexed by something a client chooses — a transaction id, a username, a port — so a request
// on one 5-tuple can read or hit an entry made by another.
func ruleSharedStateKeyedByTuple(c *Ctx, rule string) {
	w := c.W
	c.Rule(rule, "shared tables are keyed by the 5-tuple: every map-typed field of allocation.Manager, turn.Server and server.Request has a key type that is, or contains, allocation.FiveTupleFingerprint", 1)
	fpT := w.Named("allocation", "FiveTupleFingerprint")
	var contains func(t types.Type, depth int) bool
	contains = func(t types.Type, depth int) bool {
		if depth > 4 {
			return false
		}
		if types.Identical(t, fpT) {
			return true
		}
		switch u := t.Underlying().(type) {
		case *types.Struct:
			for i := 0; i < u.NumFields(); i++ {
				if contains(u.Field(i).Type(), depth+1) {
					return true
				}
			}
		case *types.Array:
			return contains(u.Elem(), depth+1)
		case *types.Pointer:
			return contains(u.Elem(), depth+1)
		}
		return false
	}
	n := 0
	for _, owner := range [][2]string{{"allocation", "Manager"}, {"turn", "Server"}, {"server", "Request"}} {
		st, ok := w.Named(owner[0], owner[1]).Underlying().(*types.Struct)
		if !ok {
			continue
		}
		c.Anchor(rule, owner[0]+"."+owner[1])
		for i := 0; i < st.NumFields(); i++ {
			f := st.Field(i)
			m, isMap := f.Type().Underlying().(*types.Map)
			if !isMap {
				continue
			}
			n++
			pos := w.pos(f.Pos())
			if contains(m.Key(), 0) {
				c.OK(rule, owner[0]+"."+owner[1], "table "+f.Name(), pos, "keyed by "+m.Key().String())
			} else {
				c.Bad(rule, owner[0]+"."+owner[1], "table "+f.Name(), pos, "the table "+owner[1]+"."+f.Name()+" is shared by every client of the listener but keyed by "+m.Key().String()+", which does not contain the 5-tuple: a request on one 5-tuple can be answered from, or act on, an entry made by another")
			}
		}
	}
	if n == 0 {
		c.Bad(rule, "-", "tables", "-", "no shared table found: anchor gone")
	}
}
