package main

// E1 — value normalisation. key(v) is a canonical string such that two SSA values with the
// same key hold the same runtime value at their respective program points (under the
// stability side conditions checked here). locKey(addr) names the storage an address denotes.

import (
	"fmt"
	"go/token"
	"go/types"
	"strings"

	"golang.org/x/tools/go/ssa"
)

func (w *World) key(v ssa.Value) string {
	if v == nil {
		return "-"
	}
	if vv, ok := v.(*virtVal); ok {
		return vv.k
	}
	if k, ok := w.keyMemo[v]; ok {
		return k
	}
	w.keyMemo[v] = fmt.Sprintf("rec:%p", v) // cycle guard (phi loops)
	w.keyDepth++
	k := w.key1(v)
	w.keyDepth--
	if w.keyDepth > 0 && strings.Contains(k, "rec:") {
		// computed inside another key's cycle: the marker stands for a value whose key is
		// still being built; do not remember this partial spelling
		delete(w.keyMemo, v)
		return k
	}
	w.keyMemo[v] = k
	return k
}

func (w *World) locKey(addr ssa.Value) string {
	switch x := addr.(type) {
	case *ssa.FieldAddr:
		st := derefStruct(x.X.Type())
		return w.locKey(x.X) + "." + st.Field(x.Field).Name()
	case *ssa.IndexAddr:
		return w.locKey(x.X) + "[" + w.key(x.Index) + "]"
	case *ssa.Alloc:
		return fmt.Sprintf("alloc:%s:%s", fname(x.Parent()), x.Name())
	case *ssa.FreeVar:
		if b := w.binding(x); b != nil {
			return w.locKey(b)
		}
		return "freevar:" + fname(x.Parent()) + ":" + x.Name()
	case *ssa.Global:
		return "global:" + short(x.String())
	}
	// an address held in a value (pointer parameter, loaded pointer, call result ...); a value
	// that IS the address of a known location (&alloc) names that location
	k := w.key(addr)
	if strings.HasPrefix(k, "&alloc:") {
		return k[1:]
	}
	return "@" + k
}

// binding returns the value bound to a free variable when its closure is created at exactly
// one site.
func (w *World) binding(fv *ssa.FreeVar) ssa.Value {
	mcs := w.Closures[fv.Parent()]
	if len(mcs) != 1 {
		return nil
	}
	for i, f := range fv.Parent().FreeVars {
		if f == fv {
			return mcs[0].Bindings[i]
		}
	}
	return nil
}

func (w *World) key1(v ssa.Value) string {
	switch x := v.(type) {
	case *ssa.MakeInterface:
		return w.key(x.X)
	case *ssa.ChangeInterface:
		return w.key(x.X)
	case *ssa.ChangeType:
		return w.key(x.X)
	case *ssa.Convert:
		if types.Identical(x.X.Type().Underlying(), x.Type().Underlying()) {
			return w.key(x.X)
		}
		return fmt.Sprintf("conv[%s](%s)", short(x.Type().String()), w.key(x.X))
	case *ssa.Parameter:
		if site := w.singleSiteCI(x.Parent()); site != nil {
			if i := paramIndex(x); i >= 0 && i < len(site.Common().Args) {
				return w.key(site.Common().Args[i])
			}
		}
		if a := w.uniformArgOf(x); a != nil {
			return w.key(a)
		}
		return "param:" + fname(x.Parent()) + ":" + x.Name()
	case *ssa.FreeVar:
		if b := w.binding(x); b != nil {
			return w.key(b)
		}
		return "freevar:" + fname(x.Parent()) + ":" + x.Name()
	case *ssa.Alloc:
		return "&" + w.locKey(x)
	case *ssa.FieldAddr:
		return "&" + w.locKey(x)
	case *ssa.IndexAddr:
		return "&" + w.locKey(x)
	case *ssa.Field:
		st := x.X.Type().Underlying().(*types.Struct)
		return w.structFieldKey(x.X, []string{st.Field(x.Field).Name()}, 0)
	case *ssa.UnOp:
		if x.Op == token.MUL {
			return w.loadKey(x)
		}
		return fmt.Sprintf("unop%s(%s)", x.Op, w.key(x.X))
	case *ssa.BinOp:
		return fmt.Sprintf("(%s %s %s)", w.key(x.X), x.Op, w.key(x.Y))
	case *ssa.Const:
		if x.Value == nil {
			return "nil"
		}
		return "const:" + x.Value.ExactString()
	case *ssa.Extract:
		return fmt.Sprintf("%s#%d", w.key(x.Tuple), x.Index)
	case *ssa.Call:
		if w.isSynthetic(x) {
			// a call expanded from a helper: identified by callee and translated arguments
			k := "helper-call:"
			if x.Call.Method != nil {
				k += "invoke " + x.Call.Method.Name() + " on " + w.key(x.Call.Value)
			} else if f, ok := x.Call.Value.(*ssa.Function); ok {
				k += fname(f)
			} else if b, ok := x.Call.Value.(*ssa.Builtin); ok {
				k += "builtin " + b.Name()
			}
			k += "("
			for i, a := range x.Call.Args {
				if i > 0 {
					k += ","
				}
				k += w.key(a)
			}
			return k + ")"
		}
		// a private copy of a byte slice (append([]byte(nil), x...), bytes.Clone(x)) holds the
		// VALUE x had when it was made: for "is this the value that was tested" it is x
		if _, isSl := x.Type().Underlying().(*types.Slice); isSl && !w.copyKeyBusy {
			w.copyKeyBusy = true
			src := w.exactCopyOf(x)
			w.copyKeyBusy = false
			if src != nil {
				return w.key(src)
			}
		}
		return fmt.Sprintf("call:%s:%s", fname(x.Parent()), x.Name())
	case *ssa.Global:
		return "&global:" + short(x.String())
	case *ssa.Function:
		return "func:" + fname(x)
	case *ssa.Slice:
		return fmt.Sprintf("slice(%s,%s,%s)", w.key(x.X), w.key(x.Low), w.key(x.High))
	case *ssa.TypeAssert:
		return fmt.Sprintf("assert[%s](%s)", short(x.AssertedType.String()), w.key(x.X))
	case *ssa.Phi:
		// a phi whose operands (ignoring itself) are one value is that value
		var uniq string
		n := 0
		for _, e := range x.Edges {
			if e == v {
				continue
			}
			k := w.key(e)
			if strings.Contains(k, "rec:") {
				// an operand depends on the phi itself: loop-carried, no unique value
				n = 2
				break
			}
			if n == 0 || k != uniq {
				if n > 0 {
					n = 2
					break
				}
				uniq = k
				n = 1
			}
		}
		if n == 1 {
			return uniq
		}
		return fmt.Sprintf("phi:%s:%s", fname(x.Parent()), x.Name())
	case *ssa.MakeClosure:
		return fmt.Sprintf("closure:%s", fname(x.Fn.(*ssa.Function)))
	}
	if in, ok := v.(ssa.Instruction); ok {
		return fmt.Sprintf("%T:%s:%s", v, fname(in.Parent()), v.Name())
	}
	return fmt.Sprintf("%T:%s", v, v.Name())
}

// loadKey resolves *addr.
func (w *World) loadKey(ld *ssa.UnOp) string {
	addr := ld.X
	loc := w.locKey(addr)
	base, path := allocBase(addr)
	if base == nil {
		if fv, ok := rootAddr(addr).(*ssa.FreeVar); ok {
			if b := w.binding(fv); b != nil {
				if al, p2 := allocBase(b); al != nil {
					base, path = al, append(p2, pathOf(addr)...)
				}
			}
		}
	}
	if strings.HasPrefix(loc, "alloc:") {
		// a field of a local context object that is written once, before the object is handed
		// to a method value / helper: the load is the stored value (writeonce.go)
		if wo := w.woStore(loc); wo != nil && (base == nil || w.escapes(base)) {
			if ld.Parent() != wo.st.Parent() || instrDominates(wo.st, ld) {
				return w.key(wo.st.Val) + wo.suffix
			}
		}
	}
	if base == nil {
		// a field of a context object built by a constructor and immutable afterwards
		if v, suffix, ok := w.ctorField(ld); ok {
			return w.key(v) + suffix
		}
		// heap object reached through a pointer: identity is the location; callers that need
		// stability across program points must establish it themselves.
		return "*" + loc
	}
	_ = path
	if !w.escapes(base) {
		// private storage: if the location has exactly one store in the program the load
		// yields the stored value
		if ss := w.stores[loc]; len(ss) == 1 && !inLoopWith(ss[0], ld) && !(ld.Parent() != ss[0].Parent() && storeRepeatsPerObject(ss[0], base)) {
			return w.key(ss[0].Val)
		}
		// whole-struct parameter copy: *t0 = req ; load &t0.F  => req.F
		if i := strings.LastIndex(loc, "."); i > 0 && len(w.stores[loc]) == 0 {
			b, f := loc[:i], loc[i:]
			for strings.Contains(b, ".") && len(w.stores[b]) == 0 {
				j := strings.LastIndex(b, ".")
				f = b[j:] + f
				b = b[:j]
			}
			if ss := w.stores[b]; len(ss) == 1 {
				return w.structFieldKey(ss[0].Val, strings.Split(strings.TrimPrefix(f, "."), "."), 0)
			}
		}
		if len(w.stores[loc]) == 0 && len(w.storesUnder(loc)) == 0 {
			return "zero:" + loc
		}
		return fmt.Sprintf("*%s@%s", loc, ld.Name())
	}
	// escaped local (its address is handed to a callee such as GetFrom): all loads of one
	// location are merged only when no write can lie between two of them
	if w.stableEscaped(base, loc) {
		return "*" + loc
	}
	if ld.Parent() != base.Parent() && w.stableInClosure(base, loc, ld.Parent()) {
		return fmt.Sprintf("*%s@in:%s", loc, ld.Parent().Name())
	}
	return fmt.Sprintf("*%s@%s", loc, ld.Name())
}

// stableInClosure: a local of an enclosing function captured by exactly one closure f, which
// is only ever called synchronously: within one invocation of f all loads of the location see
// one value when no write in f (a store, or a call handed an address under the variable) can
// lie between two of them. The key is per closure: loads in the enclosing function, before or
// after the calls, are other versions.
func (w *World) stableInClosure(al *ssa.Alloc, loc string, f *ssa.Function) bool {
	mk := loc + "@in:" + f.String()
	if k, ok := w.stableMemo[mk]; ok {
		return k
	}
	ok := func() bool {
		var fv *ssa.FreeVar
		n := 0
		for _, r := range *al.Referrers() {
			mc, isMC := r.(*ssa.MakeClosure)
			if !isMC {
				continue
			}
			n++
			if mc.Fn != ssa.Value(f) || mc.Referrers() == nil {
				return false
			}
			for _, u := range *mc.Referrers() {
				if _, isCall := u.(*ssa.Call); !isCall {
					if _, isDbg := u.(*ssa.DebugRef); !isDbg {
						return false // started as a goroutine, deferred, or stored: may run at other times
					}
				}
			}
			for i, b := range mc.Bindings {
				if b == ssa.Value(al) && i < len(f.FreeVars) {
					fv = f.FreeVars[i]
				}
			}
		}
		if n != 1 || fv == nil {
			return false
		}
		for _, b := range al.Parent().Blocks {
			for _, in := range b.Instrs {
				if _, isGo := in.(*ssa.Go); isGo {
					return false
				}
			}
		}
		var writes, loads []ssa.Instruction
		var visit func(v ssa.Value) bool
		visit = func(v ssa.Value) bool {
			if v.Referrers() == nil {
				return true
			}
			for _, r := range *v.Referrers() {
				switch x := r.(type) {
				case *ssa.FieldAddr:
					if !visit(x) {
						return false
					}
				case *ssa.IndexAddr:
					if !visit(x) {
						return false
					}
				case *ssa.UnOp:
					if x.Op == token.MUL && w.locKey(x.X) == loc {
						loads = append(loads, x)
					}
				case *ssa.Store:
					if x.Val == v {
						return false // the address itself is stored somewhere
					}
					writes = append(writes, x)
				case *ssa.MakeClosure, *ssa.Go, *ssa.Defer:
					return false
				case *ssa.DebugRef:
				default:
					writes = append(writes, r)
				}
			}
			return true
		}
		if !visit(fv) {
			return false
		}
		for _, wr := range writes {
			for _, l1 := range loads {
				if !instrReaches(l1, wr) {
					continue
				}
				for _, l2 := range loads {
					if instrReaches(wr, l2) {
						return false
					}
				}
			}
		}
		return true
	}()
	w.stableMemo[mk] = ok
	return ok
}

func (w *World) storesUnder(loc string) []*ssa.Store {
	var out []*ssa.Store
	for k, ss := range w.stores {
		if strings.HasPrefix(k, loc+".") || strings.HasPrefix(k, loc+"[") {
			out = append(out, ss...)
		}
	}
	return out
}

func rootAddr(addr ssa.Value) ssa.Value {
	for {
		switch x := addr.(type) {
		case *ssa.FieldAddr:
			addr = x.X
			continue
		case *ssa.IndexAddr:
			if _, ok := x.X.Type().Underlying().(*types.Pointer); ok { // *[N]T
				addr = x.X
				continue
			}
		}
		return addr
	}
}

func pathOf(addr ssa.Value) []string {
	var p []string
	for {
		fa, ok := addr.(*ssa.FieldAddr)
		if !ok {
			return p
		}
		p = append([]string{derefStruct(fa.X.Type()).Field(fa.Field).Name()}, p...)
		addr = fa.X
	}
}

func allocBase(addr ssa.Value) (*ssa.Alloc, []string) {
	r := rootAddr(addr)
	if al, ok := r.(*ssa.Alloc); ok {
		return al, pathOf(addr)
	}
	return nil, nil
}

// escapes: the storage behind the alloc may be written by code that is not a Store to its key.
func (w *World) escapes(al *ssa.Alloc) bool {
	if e, ok := w.escMemo[al]; ok {
		return e
	}
	var visit func(v ssa.Value) bool
	visit = func(v ssa.Value) bool {
		for _, r := range *v.Referrers() {
			switch x := r.(type) {
			case *ssa.FieldAddr:
				if visit(x) {
					return true
				}
			case *ssa.IndexAddr:
				if visit(x) {
					return true
				}
			case *ssa.UnOp: // load
			case *ssa.Store:
				if x.Val == v {
					return true
				}
			case *ssa.MakeClosure: // stores inside the closure are keyed to the same location
				fn := x.Fn.(*ssa.Function)
				for i, b := range x.Bindings {
					if b == v && i < len(fn.FreeVars) {
						if w.fvEscapes(fn.FreeVars[i]) {
							return true
						}
					}
				}
			case *ssa.DebugRef:
			default:
				return true // call argument, interface conversion, slice, ...
			}
		}
		return false
	}
	w.escMemo[al] = false
	e := visit(al)
	w.escMemo[al] = e
	return e
}

func (w *World) fvEscapes(fv *ssa.FreeVar) bool {
	var visit func(v ssa.Value) bool
	visit = func(v ssa.Value) bool {
		for _, r := range *v.Referrers() {
			switch x := r.(type) {
			case *ssa.FieldAddr:
				if visit(x) {
					return true
				}
			case *ssa.IndexAddr:
				if visit(x) {
					return true
				}
			case *ssa.UnOp:
			case *ssa.Store:
				if x.Val == v {
					return true
				}
			case *ssa.MakeClosure:
				fn := x.Fn.(*ssa.Function)
				for i, b := range x.Bindings {
					if b == v && i < len(fn.FreeVars) && w.fvEscapes(fn.FreeVars[i]) {
						return true
					}
				}
			case *ssa.DebugRef:
			default:
				return true
			}
		}
		return false
	}
	return visit(fv)
}

// stableEscaped: for an escaped local, true when no write to the object (a store to it or a
// call that receives its address) can execute between two loads of loc, so that all loads of
// loc in the function see one value.
func (w *World) stableEscaped(al *ssa.Alloc, loc string) bool {
	if k, ok := w.stableMemo[loc]; ok {
		return k
	}
	var writes, loads []ssa.Instruction
	unstable := false
	var visit func(v ssa.Value)
	visit = func(v ssa.Value) {
		for _, r := range *v.Referrers() {
			switch x := r.(type) {
			case *ssa.FieldAddr:
				visit(x)
			case *ssa.IndexAddr:
				visit(x)
			case *ssa.UnOp:
				if x.Op == token.MUL && w.locKey(x.X) == loc {
					loads = append(loads, x)
				}
			case *ssa.Store:
				// x = x (a named result copied back to itself before the deferred calls run)
				// changes nothing
				if ld, isLd := x.Val.(*ssa.UnOp); isLd && ld.Op == token.MUL && x.Addr == v && w.locKey(ld.X) == w.locKey(x.Addr) {
					continue
				}
				writes = append(writes, x)
			case *ssa.MakeClosure:
				unstable = true // a closure may write at any later time
			case *ssa.DebugRef:
			default:
				writes = append(writes, r)
			}
		}
	}
	visit(al)
	ok := !unstable
	if ok {
	outer:
		for _, wr := range writes {
			for _, l1 := range loads {
				if !instrReaches(l1, wr) {
					continue
				}
				for _, l2 := range loads {
					if instrReaches(wr, l2) {
						ok = false
						break outer
					}
				}
			}
		}
	}
	w.stableMemo[loc] = ok
	return ok
}

// instrReaches: is there a CFG path from just after a to b (a != b)?
func instrReaches(a, b ssa.Instruction) bool {
	ba, bb := a.Block(), b.Block()
	if ba == nil || bb == nil || ba.Parent() != bb.Parent() {
		return false
	}
	if ba == bb {
		ia, ib := indexIn(a), indexIn(b)
		if ia < ib {
			return true
		}
	}
	seen := map[*ssa.BasicBlock]bool{}
	stack := append([]*ssa.BasicBlock{}, liveSuccs(ba)...)
	for len(stack) > 0 {
		x := stack[len(stack)-1]
		stack = stack[:len(stack)-1]
		if seen[x] {
			continue
		}
		seen[x] = true
		if x == bb {
			return true
		}
		stack = append(stack, liveSuccs(x)...)
	}
	return false
}

func indexIn(in ssa.Instruction) int {
	for i, x := range in.Block().Instrs {
		if x == in {
			return i
		}
	}
	if theWorld != nil {
		if v, ok := in.(ssa.Value); ok {
			if site := theWorld.ss().synSite[v]; site != nil {
				return indexIn(site)
			}
			if o, ok := theWorld.ss().synOrigin[v].(ssa.Instruction); ok && o != in && o.Block() == in.Block() {
				return indexIn(o)
			}
		}
	}
	return -1
}

// inLoopWith: the store can execute again after the load (both in one cycle)
func inLoopWith(st *ssa.Store, ld ssa.Instruction) bool {
	if st.Parent() != ld.Parent() {
		return false
	}
	return instrReaches(ld, st) && instrReaches(st, ld)
}

// ---------------------------------------------------------------------------------
// literals:  new T ; stores to its fields  =>  field -> stored value

type literal struct {
	alloc  *ssa.Alloc
	fields map[string]ssa.Value
}

// literalOf recognises the value of a composite literal (&T{...} or T{...} loaded from a
// fresh Alloc) and returns its field initialisers.
func (w *World) literalOf(v ssa.Value) *literal {
	v = stripIface(v)
	var al *ssa.Alloc
	switch x := v.(type) {
	case *ssa.Alloc:
		al = x
	case *ssa.UnOp:
		if x.Op == token.MUL {
			al, _ = x.X.(*ssa.Alloc)
			if al != nil {
				// a variable holding a POINTER to the literal (captured by a closure, so it
				// lives in its own cell): the literal is what the variable was assigned
				if _, isPtr := al.Type().Underlying().(*types.Pointer).Elem().Underlying().(*types.Pointer); isPtr {
					al = nil
				}
			}
		}
	}
	if vv, isV := v.(*virtVal); isV && al == nil && strings.HasPrefix(vv.k, "&alloc:") {
		// a helper's value that stands for an object of the caller: the object itself
		al = w.allocByLoc(vv.k[1:])
	}
	if al == nil {
		// a write-once field of a context object (txn.fiveTuple), a forwarded parameter
		if rv := stripIface(w.resolveLoad(v)); rv != v {
			if _, isAl := rv.(*ssa.Alloc); isAl {
				return w.literalOf(rv)
			}
		}
		return w.literalThroughHelper(v)
	}
	lit := &literal{alloc: al, fields: map[string]ssa.Value{}}
	for _, r := range *al.Referrers() {
		fa, ok := r.(*ssa.FieldAddr)
		if !ok {
			continue
		}
		name := derefStruct(fa.X.Type()).Field(fa.Field).Name()
		for _, r2 := range *fa.Referrers() {
			if st, ok := r2.(*ssa.Store); ok && st.Addr == fa {
				if _, dup := lit.fields[name]; dup {
					lit.fields[name] = nil // written twice: not a plain literal field
				} else {
					lit.fields[name] = st.Val
				}
			}
		}
	}
	return lit
}

// literalThroughHelper: v is the result of a module function (a constructor helper) all of
// whose returns yield a composite literal with the same field initialisers once translated
// to the call site.
func (w *World) literalThroughHelper(v ssa.Value) *literal {
	c, idx := callOf(w.resolveLoad(v))
	if c == nil {
		return nil
	}
	h := c.Call.StaticCallee()
	if h == nil || !w.IsMod[h] || len(h.Blocks) == 0 || c.Parent() == h {
		return nil
	}
	if idx < 0 {
		idx = 0
	}
	var out *literal
	for _, ret := range returnsOf(h) {
		if idx >= len(ret.Results) {
			return nil
		}
		hl := w.literalOf(w.resolveLoad(ret.Results[idx]))
		if hl == nil {
			return nil
		}
		tl := &literal{alloc: hl.alloc, fields: map[string]ssa.Value{}}
		for n, fv := range hl.fields {
			if fv == nil {
				tl.fields[n] = nil
				continue
			}
			tl.fields[n] = w.translate(fv, h, c)
		}
		if out == nil {
			out = tl
			continue
		}
		if len(out.fields) != len(tl.fields) {
			return nil
		}
		for n, fv := range out.fields {
			o, ok := tl.fields[n]
			if !ok || (fv == nil) != (o == nil) || (fv != nil && w.key(fv) != w.key(o)) {
				return nil
			}
		}
	}
	return out
}

func stripIface(v ssa.Value) ssa.Value {
	for {
		switch x := v.(type) {
		case *ssa.MakeInterface:
			v = x.X
		case *ssa.ChangeInterface:
			v = x.X
		case *ssa.ChangeType:
			v = x.X
		case *ssa.Parameter:
			a, ok := argOfParam(x)
			if !ok {
				return v
			}
			v = a
		default:
			return v
		}
	}
}

// loadsAgree: two values with equal keys that are loads of a heap location (a field reached
// through a pointer) denote the same value only if no store to that field, and no call of a
// module function that (transitively) stores to that field, can execute between them without
// the first load being re-executed. Values that are not such loads agree trivially.
func (w *World) loadsAgree(a, b ssa.Value) bool {
	la, ok1 := stripIface(a).(*ssa.UnOp)
	lb, ok2 := stripIface(b).(*ssa.UnOp)
	if !ok1 || !ok2 || la.Op != token.MUL || lb.Op != token.MUL || la == lb {
		return true
	}
	fa, okA := la.X.(*ssa.FieldAddr)
	_, okB := lb.X.(*ssa.FieldAddr)
	if !okA || !okB || la.Parent() != lb.Parent() {
		return true
	}
	if _, isAlloc := rootAddr(fa).(*ssa.Alloc); isAlloc {
		return true // locals are handled by the key itself
	}
	f := fieldOf(fa)
	writes := w.fieldWritesIn(la.Parent(), f)
	for _, wr := range writes {
		if reachesAvoiding(la, wr, nil) && reachesAvoiding(wr, lb, la) {
			return false
		}
		if reachesAvoiding(lb, wr, nil) && reachesAvoiding(wr, la, lb) {
			return false
		}
	}
	return true
}

// fieldWritesIn: instructions of fn that may write field f: stores to it, and calls of module
// functions whose transitive store set contains f.
func (w *World) fieldWritesIn(fn *ssa.Function, f *types.Var) []ssa.Instruction {
	var out []ssa.Instruction
	w.eachInstr(fn, func(in ssa.Instruction) {
		switch x := in.(type) {
		case *ssa.Store:
			if fa, ok := x.Addr.(*ssa.FieldAddr); ok && fieldOf(fa) == f {
				out = append(out, in)
			}
		case ssa.CallInstruction:
			if cal := x.Common().StaticCallee(); cal != nil && w.IsMod[cal] && w.storeSet(cal)[f] {
				out = append(out, in)
			}
		}
	})
	return out
}

// storeSet: fields stored to by fn or its module callees (static calls).
func (w *World) storeSet(fn *ssa.Function) map[*types.Var]bool {
	if w.storeSets == nil {
		w.storeSets = map[*ssa.Function]map[*types.Var]bool{}
	}
	if s, ok := w.storeSets[fn]; ok {
		return s
	}
	s := map[*types.Var]bool{}
	w.storeSets[fn] = s
	w.eachInstr(fn, func(in ssa.Instruction) {
		switch x := in.(type) {
		case *ssa.Store:
			if fa, ok := x.Addr.(*ssa.FieldAddr); ok {
				s[fieldOf(fa)] = true
			}
		case ssa.CallInstruction:
			if cal := x.Common().StaticCallee(); cal != nil && w.IsMod[cal] {
				for f := range w.storeSet(cal) {
					s[f] = true
				}
			}
		}
	})
	return s
}

// reachesAvoiding: a CFG path from just after `from` to `to` that does not execute `avoid`.
func reachesAvoiding(from, to ssa.Instruction, avoid ssa.Instruction) bool {
	bf, bt := from.Block(), to.Block()
	if bf == nil || bt == nil || bf.Parent() != bt.Parent() {
		return false
	}
	var ab *ssa.BasicBlock
	ai := -1
	if avoid != nil {
		ab, ai = avoid.Block(), indexIn(avoid)
	}
	// within the starting block
	fi, ti := indexIn(from), indexIn(to)
	if bf == bt && fi < ti {
		if !(ab == bf && ai > fi && ai < ti) {
			return true
		}
	}
	if ab == bf && ai > fi {
		return false // the rest of the starting block executes avoid
	}
	seen := map[*ssa.BasicBlock]bool{}
	stack := append([]*ssa.BasicBlock{}, liveSuccs(bf)...)
	for len(stack) > 0 {
		x := stack[len(stack)-1]
		stack = stack[:len(stack)-1]
		if seen[x] {
			continue
		}
		seen[x] = true
		if x == bt {
			if !(ab == x && ai < ti) {
				return true
			}
			continue
		}
		if x == ab {
			continue // passing through this block executes avoid
		}
		stack = append(stack, liveSuccs(x)...)
	}
	return false
}

// exactCopyOf: call yields a slice with exactly the elements of another one — append onto an
// empty base (nil, x[:0] of a fresh slice, make(_, 0, …)) or bytes/slices.Clone.
func (w *World) exactCopyOf(call *ssa.Call) ssa.Value {
	switch stdCallee(&call.Call) {
	case "slices.Clone", "bytes.Clone":
		return call.Call.Args[0]
	}
	b, ok := call.Call.Value.(*ssa.Builtin)
	if !ok || b.Name() != "append" || len(call.Call.Args) != 2 {
		return nil
	}
	if _, isSl := call.Call.Args[1].Type().Underlying().(*types.Slice); !isSl {
		return nil
	}
	base := stripIface(w.resolveLoad(call.Call.Args[0]))
	empty := false
	switch x := base.(type) {
	case *ssa.Const:
		empty = x.Value == nil
	case *ssa.MakeSlice:
		if k, isK := constInt(x.Len); isK && k == 0 {
			empty = true
		}
	case *ssa.Slice:
		// a zero-length slice of a fresh array: []T{}[:0], make(…)[:0]
		if k, isK := constInt(x.High); isK && k == 0 && w.freshBytes(x.X, 0) {
			empty = true
		}
		if al, isAl := x.X.(*ssa.Alloc); isAl && al.Heap {
			if arr, isArr := al.Type().Underlying().(*types.Pointer).Elem().Underlying().(*types.Array); isArr && arr.Len() == 0 {
				empty = true
			}
		}
	}
	if !empty {
		return nil
	}
	return call.Call.Args[1]
}
