package main

// E5 — integers. Intervals over ℤ for SSA integer values, refined at a program point by the
// must-facts holding there (and the facts they imply through small predicate functions),
// plus term-level relational facts (x ≤ len(y)) carried across one call.

import (
	"fmt"
	"go/constant"
	"go/token"
	"go/types"
	"os"
	"strings"

	"golang.org/x/tools/go/ssa"
)

const inf = int64(1) << 62

type ival struct{ lo, hi int64 }

func (i ival) String() string {
	f := func(x int64) string {
		switch {
		case x >= inf:
			return "+inf"
		case x <= -inf:
			return "-inf"
		}
		return fmt.Sprint(x)
	}
	return "[" + f(i.lo) + "," + f(i.hi) + "]"
}

func (i ival) within(o ival) bool { return i.lo >= o.lo && i.hi <= o.hi }
func (i ival) meet(o ival) ival {
	if o.lo > i.lo {
		i.lo = o.lo
	}
	if o.hi < i.hi {
		i.hi = o.hi
	}
	return i
}
func (i ival) join(o ival) ival {
	if i.empty() {
		return o
	}
	if o.empty() {
		return i
	}
	if o.lo < i.lo {
		i.lo = o.lo
	}
	if o.hi > i.hi {
		i.hi = o.hi
	}
	return i
}
func (i ival) empty() bool { return i.lo > i.hi }

func sat(x int64) int64 {
	if x > inf {
		return inf
	}
	if x < -inf {
		return -inf
	}
	return x
}
func sadd(x, y int64) int64 {
	if x >= inf || y >= inf {
		if x <= -inf || y <= -inf {
			return 0
		}
		return inf
	}
	if x <= -inf || y <= -inf {
		return -inf
	}
	return sat(x + y)
}
func sneg(x int64) int64 {
	if x >= inf {
		return -inf
	}
	if x <= -inf {
		return inf
	}
	return -x
}
func addI(a, b ival) ival {
	if a.empty() || b.empty() {
		return ival{1, 0}
	}
	return ival{sadd(a.lo, b.lo), sadd(a.hi, b.hi)}
}
func subI(a, b ival) ival {
	if a.empty() || b.empty() {
		return ival{1, 0}
	}
	return ival{sadd(a.lo, sneg(b.hi)), sadd(a.hi, sneg(b.lo))}
}
func mulI(a, b ival) ival {
	if a.empty() || b.empty() {
		return ival{1, 0}
	}
	big := func(x int64) bool { return x >= inf>>20 || x <= -(inf>>20) }
	if big(a.lo) || big(a.hi) || big(b.lo) || big(b.hi) {
		if a.lo >= 0 && b.lo >= 0 {
			return ival{0, inf}
		}
		return ival{-inf, inf}
	}
	c := []int64{a.lo * b.lo, a.lo * b.hi, a.hi * b.lo, a.hi * b.hi}
	r := ival{c[0], c[0]}
	for _, x := range c[1:] {
		if x < r.lo {
			r.lo = x
		}
		if x > r.hi {
			r.hi = x
		}
	}
	return r
}

func typeRange(t types.Type) ival {
	b, ok := t.Underlying().(*types.Basic)
	if !ok {
		return ival{-inf, inf}
	}
	switch b.Kind() {
	case types.Uint8:
		return ival{0, 255}
	case types.Uint16:
		return ival{0, 65535}
	case types.Uint32:
		return ival{0, 1<<32 - 1}
	case types.Uint64, types.Uint, types.Uintptr:
		return ival{0, inf}
	case types.Int8:
		return ival{-128, 127}
	case types.Int16:
		return ival{-32768, 32767}
	case types.Int32:
		return ival{-(1 << 31), 1<<31 - 1}
	case types.Int64, types.Int:
		return ival{-inf, inf}
	case types.UntypedInt, types.UntypedRune:
		return ival{-inf, inf}
	}
	return ival{-inf, inf}
}

func isIntType(t types.Type) bool {
	b, ok := t.Underlying().(*types.Basic)
	return ok && b.Info()&types.IsInteger != 0
}

// Term: an SSA value, the length of an SSA slice/string/array value, or a constant.
type Term struct {
	Len bool
	V   ssa.Value
	Cap bool // with Len: cap(V) instead of len(V)
}

type TFact struct {
	Op    string // "<" or "=="
	X, Y  Term
	Truth bool
}

type absint struct {
	ioOK          map[*ssa.Function]int // module implementations of Read/ReadFrom/Write…: 1 keeps n ≤ len(buf), 2 does not
	diffBusy      bool
	nnBusy        map[*ssa.Function]bool
	linBusy       bool
	edgeCtx       map[ssa.Instruction][]TFact
	phiProof      map[*ssa.Phi]bool
	w             *World
	memo          map[ssa.Value]ival
	assume        map[ssa.Value]ival
	inSolve       bool
	fieldMemo     map[*types.Var]*ival
	paramMemo     map[*ssa.Parameter]*ival
	globalNN      map[*ssa.Global]int
	flMemo        map[flKey]*flRes
	inFieldLen    bool
	depth         int
	active        map[ssa.Value]bool
	wraps         map[*ssa.BinOp]ival   // arithmetic whose ℤ result does not fit its type
	narrow        map[*ssa.Convert]ival // conversions that may lose value
	fieldInv      map[*types.Var]ival   // assumed field invariants (proved by induction by their rule)
	implMemo      map[implKey][]TFact
	lenPosts      map[interface{}]*lenPostCand
	callLenBusy   map[*ssa.Function]bool
	callLenAtBusy bool
}

type implKey struct {
	call *ssa.Call
	idx  int
	want string
}

func (w *World) absint() *absint {
	if w.ai == nil {
		w.ai = &absint{w: w, memo: map[ssa.Value]ival{}, assume: map[ssa.Value]ival{}, fieldMemo: map[*types.Var]*ival{}, paramMemo: map[*ssa.Parameter]*ival{}, globalNN: map[*ssa.Global]int{}, active: map[ssa.Value]bool{}, wraps: map[*ssa.BinOp]ival{},
			narrow: map[*ssa.Convert]ival{}, fieldInv: map[*types.Var]ival{}, implMemo: map[implKey][]TFact{}}
	}
	return w.ai
}

func (a *absint) termKey(t Term) string {
	if t.Len && t.Cap {
		return "cap(" + a.w.key(t.V) + ")"
	}
	if t.Len {
		return "len(" + a.w.key(t.V) + ")"
	}
	return a.w.key(t.V)
}

// termOf: a builtin len() call is the Len term of its argument.
func termOf(v ssa.Value) Term {
	if call, ok := v.(*ssa.Call); ok {
		if b, isB := call.Call.Value.(*ssa.Builtin); isB && b.Name() == "len" {
			return Term{Len: true, V: call.Call.Args[0]}
		}
		if b, isB := call.Call.Value.(*ssa.Builtin); isB && b.Name() == "cap" {
			return Term{Len: true, Cap: true, V: call.Call.Args[0]}
		}
	}
	return Term{V: v}
}

func (a *absint) sameTerm(x, y Term) bool {
	if x.Len != y.Len || x.Cap != y.Cap {
		return false
	}
	if x.V == y.V {
		return true
	}
	kx, ky := a.w.key(x.V), a.w.key(y.V)
	if kx != ky || strings.Contains(kx, "rec:") {
		return false
	}
	return a.w.loadsAgree(x.V, y.V)
}

// ---------------------------------------------------------------------------------
// context-free evaluation

func (a *absint) eval(v ssa.Value) ival {
	if r, ok := a.assume[v]; ok {
		return r
	}
	if r, ok := a.memo[v]; ok {
		return r
	}
	if _, isPhi := v.(*ssa.Phi); isPhi && a.active[v] {
		return typeRange(v.Type()) // re-entrant solve of one phi: give up on it
	}
	a.depth++
	defer func() { a.depth-- }()
	if a.depth > 200 {
		return typeRange(v.Type())
	}
	a.active[v] = true
	var r ival
	if phi, ok := v.(*ssa.Phi); ok && isIntType(phi.Type()) {
		r = a.solvePhi(phi)
	} else {
		r = a.eval1(v).meet(typeRange(v.Type()))
		if r.empty() && !a.inSolve {
			r = typeRange(v.Type())
		}
	}
	delete(a.active, v)
	if !a.inSolve {
		a.memo[v] = r
	}
	return r
}

// solvePhi: least fixpoint with widening for a loop-carried phi. The phi is assumed ⊥, its
// operands are evaluated, the result joined and re-assumed; a bound that keeps moving is
// widened to the type's bound.
// deadPhiEdge: the i-th incoming edge of phi can never be taken.
func (a *absint) deadPhiEdge(phi *ssa.Phi, i int) bool {
	b := phi.Block()
	if b == nil || i >= len(b.Preds) || a.w.dead == nil {
		return false
	}
	return deadEdge(b.Preds[i], b) || !a.w.liveBlock(b.Preds[i])
}

func (a *absint) solvePhi(phi *ssa.Phi) ival {
	tr := typeRange(phi.Type())
	saveMemo, saveSolve := a.memo, a.inSolve
	a.memo = map[ssa.Value]ival{}
	for k, v := range saveMemo {
		a.memo[k] = v
	}
	a.inSolve = true
	cur := ival{1, 0}
	for iter := 0; iter < 6; iter++ {
		a.assume[phi] = cur
		a.memo = map[ssa.Value]ival{}
		for k, v := range saveMemo {
			a.memo[k] = v
		}
		next := ival{1, 0}
		for i, e := range phi.Edges {
			if a.deadPhiEdge(phi, i) {
				continue
			}
			ev := a.eval(e)
			next = next.join(ev)
		}
		next = next.meet(tr)
		if next == cur {
			break
		}
		if !cur.empty() {
			if next.lo < cur.lo {
				next.lo = tr.lo
			}
			if next.hi > cur.hi {
				next.hi = tr.hi
			}
		}
		cur = next
	}
	delete(a.assume, phi)
	a.memo, a.inSolve = saveMemo, saveSolve
	if cur.empty() {
		cur = tr
	}
	return cur
}

// hmacSumDigest: x is h.Sum(b) on a hash made by hmac.New(sha256.New | sha1.New, …): the digest
// size (Sum appends exactly that many bytes to b); 0 otherwise.
func hmacSumDigest(x *ssa.Call) int64 {
	if !x.Call.IsInvoke() || x.Call.Method.Name() != "Sum" || len(x.Call.Args) != 1 {
		return 0
	}
	h, _ := callOf(x.Call.Value)
	if h == nil || h.Call.StaticCallee() == nil || h.Call.StaticCallee().String() != "crypto/hmac.New" {
		return 0
	}
	if f, ok := h.Call.Args[0].(*ssa.Function); ok {
		switch f.String() {
		case "crypto/sha256.New":
			return 32
		case "crypto/sha1.New":
			return 20
		}
	}
	return 0
}

func (a *absint) lenOf(v ssa.Value) ival {
	v = stripIface(v)
	if ld, ok := v.(*ssa.UnOp); ok && ld.Op == token.MUL && !a.inFieldLen {
		a.inFieldLen = true
		r, ok := a.fieldLenAtLoad(ld)
		a.inFieldLen = false
		if ok && !r.empty() {
			return r
		}
	}
	switch x := v.(type) {
	case *ssa.MakeSlice:
		return a.eval(x.Len).meet(ival{0, inf})
	case *ssa.Slice:
		base, lo, hi := sliceRange(x)
		_ = base
		if hi >= 0 {
			return ival{hi - lo, hi - lo}
		}
		// x[lo:] : len(base) - lo ; x[:hi]: hi
		if x.High != nil {
			h := a.eval(x.High)
			l := ival{0, 0}
			if x.Low != nil {
				l = a.eval(x.Low)
			}
			return subI(h, l).meet(ival{0, inf})
		}
		bl := a.lenOf(x.X)
		l := ival{0, 0}
		if x.Low != nil {
			l = a.eval(x.Low)
		}
		return subI(bl, l).meet(ival{0, inf})
	case *ssa.Alloc:
		if p, ok := x.Type().Underlying().(*types.Pointer); ok {
			if arr, ok := p.Elem().Underlying().(*types.Array); ok {
				return ival{arr.Len(), arr.Len()}
			}
		}
	case *ssa.Const:
		if x.Value != nil && x.Value.Kind() == constant.String {
			n := int64(len(constant.StringVal(x.Value)))
			return ival{n, n}
		}
	case *ssa.Convert:
		return a.lenOf(x.X)
	case *ssa.ChangeType:
		return a.lenOf(x.X)
	case *ssa.Phi:
		if a.active[x] {
			return ival{0, inf}
		}
		a.active[x] = true
		r := ival{1, 0}
		for i, e := range x.Edges {
			if a.deadPhiEdge(x, i) {
				continue
			}
			pred := x.Block().Preds[i]
			last := pred.Instrs[len(pred.Instrs)-1]
			er := a.lenOf(e)
			er = a.refineWith(Term{Len: true, V: e}, er, a.tfactsOnEdge(last, pred, x.Block()), last, 2)
			r = r.join(er)
		}
		delete(a.active, x)
		if r.empty() {
			return ival{0, inf}
		}
		return r
	case *ssa.Call:
		// library contract: hash.Hash.Sum(nil) of an HMAC-SHA256 is 32 bytes
		// (Sum(b) appends the digest to b)
		if d := hmacSumDigest(x); d > 0 {
			if isNilConst(x.Call.Args[0]) {
				return ival{d, d}
			}
			l0 := a.lenOf(x.Call.Args[0])
			return ival{sadd(l0.lo, d), sadd(l0.hi, d)}
		}
		if b, ok := x.Call.Value.(*ssa.Builtin); ok && b.Name() == "append" && len(x.Call.Args) >= 1 {
			l0 := a.lenOf(x.Call.Args[0])
			if len(x.Call.Args) == 2 {
				if _, isSl := x.Call.Args[1].Type().Underlying().(*types.Slice); isSl {
					l1 := a.lenOf(x.Call.Args[1])
					return ival{sadd(l0.lo, l1.lo), sadd(l0.hi, l1.hi)}
				}
			}
			return ival{l0.lo, inf}
		}
		// library contracts on lengths
		switch name := stdCallee(&x.Call); name {
		case "(encoding/binary.bigEndian).AppendUint16", "(encoding/binary.littleEndian).AppendUint16",
			"(encoding/binary.bigEndian).AppendUint32", "(encoding/binary.littleEndian).AppendUint32",
			"(encoding/binary.bigEndian).AppendUint64", "(encoding/binary.littleEndian).AppendUint64":
			k := uintWidth(name[strings.LastIndex(name, ".")+1:], "AppendUint")
			if n := len(x.Call.Args); k > 0 && n >= 2 {
				l0 := a.lenOf(x.Call.Args[n-2])
				return ival{sadd(l0.lo, k), sadd(l0.hi, k)}
			}
		case "bytes.Clone", "slices.Clone":
			if len(x.Call.Args) == 1 {
				return a.lenOf(x.Call.Args[0])
			}
		case "(*math/big.Int).FillBytes":
			// returns the buffer it was handed
			if len(x.Call.Args) == 2 {
				return a.lenOf(x.Call.Args[1])
			}
		case "slices.Concat":
			if len(x.Call.Args) == 1 {
				if els := variadicElemsOrdered(x.Call.Args[0]); els != nil {
					r := ival{0, 0}
					for _, e := range els {
						le := a.lenOf(e)
						r = ival{sadd(r.lo, le.lo), sadd(r.hi, le.hi)}
					}
					return r
				}
			}
		}
		// a module helper returning a slice: its length post-condition (the length equals one
		// of its integer arguments, or the length of one of its slice arguments, on every
		// return), evaluated with this call's arguments; else the join over its returns
		if r, ok := a.callLen(x, 0); ok {
			return r
		}
	case *ssa.Extract:
		if call, isCall := x.Tuple.(*ssa.Call); isCall {
			if r, ok := a.callLen(call, x.Index); ok {
				return r
			}
		}
	}
	if arr, ok := v.Type().Underlying().(*types.Array); ok {
		return ival{arr.Len(), arr.Len()}
	}
	if p, ok := v.Type().Underlying().(*types.Pointer); ok {
		if arr, ok := p.Elem().Underlying().(*types.Array); ok {
			return ival{arr.Len(), arr.Len()}
		}
	}
	return ival{0, inf}
}

func (a *absint) eval1(v ssa.Value) ival {
	// a helper's value expressed in the caller's terms: a field load keeps the field's
	// invariant (which holds for every object of the type)
	if vv, isV := v.(*virtVal); isV {
		if u, ok := under(vv).(*ssa.UnOp); ok && u.Op == token.MUL {
			if fa, ok := u.X.(*ssa.FieldAddr); ok {
				if inv, ok := a.fieldInv[fieldOf(fa)]; ok {
					return inv
				}
				if isIntType(u.Type()) {
					if r := a.fieldRange(fieldOf(fa)); r != nil {
						return *r
					}
				}
			}
		}
		return typeRange(v.Type())
	}
	switch x := v.(type) {
	case *ssa.Const:
		if k, ok := constInt(x); ok {
			return ival{k, k}
		}
		if x.Value == nil {
			return ival{0, 0}
		}
	case *ssa.Convert:
		if !isIntType(x.X.Type()) || !isIntType(x.Type()) {
			break
		}
		in := a.eval(x.X)
		if in.within(typeRange(x.Type())) {
			return in
		}
		a.narrow[x] = in
		return typeRange(x.Type())
	case *ssa.ChangeType:
		return a.eval(x.X)
	case *ssa.BinOp:
		if !isIntType(x.Type()) {
			break
		}
		l, r := a.eval(x.X), a.eval(x.Y)
		return a.binop(x, l, r, true)
	case *ssa.Phi:
		var r ival
		first := true
		for i, e := range x.Edges {
			if a.deadPhiEdge(x, i) {
				continue
			}
			ev := a.eval(e)
			if first {
				r, first = ev, false
			} else {
				r = r.join(ev)
			}
		}
		if !first {
			return r
		}
	case *ssa.Call:
		if b, ok := x.Call.Value.(*ssa.Builtin); ok {
			switch nm(b) {
			case "len", "cap":
				return a.lenOf(x.Call.Args[0])
			case "copy":
				return ival{0, inf}
			case "min":
				r := a.eval(x.Call.Args[0])
				for _, o := range x.Call.Args[1:] {
					e := a.eval(o)
					if e.hi < r.hi {
						r.hi = e.hi
					}
					if e.lo < r.lo {
						r.lo = e.lo
					}
				}
				return r
			case "max":
				r := a.eval(x.Call.Args[0])
				for _, o := range x.Call.Args[1:] {
					e := a.eval(o)
					if e.hi > r.hi {
						r.hi = e.hi
					}
					if e.lo > r.lo {
						r.lo = e.lo
					}
				}
				return r
			}
			break
		}
		if ic := indexSearch(x); ic != nil {
			l := a.lenOf(ic.Call.Args[0])
			return ival{-1, sat(l.hi - 1)}
		}
		if els := orArgs(x); len(els) > 0 && isIntType(x.Type()) {
			// cmp.Or: one of the arguments; zero only when the last one can be zero
			r := ival{1, 0}
			for i, e := range els {
				er := a.eval(e)
				if i < len(els)-1 && er.lo == 0 && er.hi > 0 {
					er.lo = 1 // a zero is skipped
				}
				if i < len(els)-1 && er.lo == 0 && er.hi == 0 {
					continue
				}
				r = r.join(er)
			}
			if !r.empty() {
				return r
			}
		}
		if cal := x.Call.StaticCallee(); cal != nil {
			name := cal.String()
			switch {
			case strings.HasSuffix(name, ".Intn") || strings.HasSuffix(name, ".IntN"):
				n := a.eval(x.Call.Args[len(x.Call.Args)-1])
				return ival{0, sat(n.hi - 1)}
			}
			if a.w.IsMod[cal] && cal.Signature.Results().Len() == 1 && isIntType(cal.Signature.Results().At(0).Type()) {
				return a.retRange(cal, 0)
			}
			if name == "(*math/big.Int).Int64" {
				if r, ok := a.bigRemainder(x); ok {
					return r
				}
			}
		}
	case *ssa.Parameter:
		if isIntType(x.Type()) {
			return a.paramRange(x)
		}
	case *ssa.Extract:
		if call, ok := x.Tuple.(*ssa.Call); ok {
			if cal := call.Call.StaticCallee(); cal != nil && a.w.IsMod[cal] && isIntType(x.Type()) {
				return a.retRange(cal, x.Index)
			}
			// library contract: io.Reader/Writer-style calls return 0 <= n (<= len(p))
			if x.Index == 0 && isIntType(x.Type()) && ioCountCall(call) {
				return ival{0, inf}
			}
		}
	case *ssa.UnOp:
		if x.Op == token.MUL {
			if fa, ok := x.X.(*ssa.FieldAddr); ok {
				// store-to-load forwarding inside one block: `t.n++; n := t.n` reads what was
				// just written (no call between them that may write the field)
				if sv := a.forwardedStore(x, fa); sv != nil && isIntType(x.Type()) {
					r := a.eval(sv)
					if inv, ok := a.fieldInv[fieldOf(fa)]; ok {
						if m := r.meet(inv); !m.empty() {
							return m
						}
					}
					return r
				}
				if inv, ok := a.fieldInv[fieldOf(fa)]; ok {
					return inv
				}
				if isIntType(x.Type()) {
					if r := a.fieldRange(fieldOf(fa)); r != nil {
						return *r
					}
				}
			}
			// private single-store local
			if rv := a.w.resolveLoad(x); rv != ssa.Value(x) {
				return a.eval(rv)
			}
		}
		if x.Op == token.SUB && isIntType(x.Type()) {
			return subI(ival{0, 0}, a.eval(x.X))
		}
	}
	return typeRange(v.Type())
}

// retRange: join of the (context-free) ranges of a module function's idx-th result.
func (a *absint) retRange(fn *ssa.Function, idx int) ival {
	var r ival
	first := true
	for _, ret := range returnsOf(fn) {
		if idx >= len(ret.Results) {
			continue
		}
		ev := a.rangeAt(a.w.resolveLoad(ret.Results[idx]), ret, 2)
		if first {
			r, first = ev, false
		} else {
			r = r.join(ev)
		}
	}
	if first {
		return ival{-inf, inf}
	}
	return r
}

func (a *absint) binop(x *ssa.BinOp, l, r ival, record bool) ival {
	tr := typeRange(x.Type())
	var z ival
	switch x.Op {
	case token.ADD:
		z = addI(l, r)
	case token.SUB:
		z = subI(l, r)
	case token.MUL:
		z = mulI(l, r)
	case token.REM:
		if r.lo > 0 && l.lo >= 0 {
			hi := r.hi - 1
			if l.hi < hi {
				hi = l.hi
			}
			return ival{0, hi}
		}
		return tr
	case token.QUO:
		if r.lo > 0 && l.lo >= 0 {
			return ival{l.lo / r.hi, l.hi / r.lo}
		}
		return tr
	case token.AND:
		if r.lo >= 0 && l.lo >= 0 {
			hi := r.hi
			if l.hi < hi {
				hi = l.hi
			}
			return ival{0, hi}
		}
		if r.lo >= 0 {
			return ival{0, r.hi}
		}
		return tr
	case token.SHR:
		if l.lo >= 0 && r.lo == r.hi && r.lo >= 0 && r.lo < 63 {
			return ival{l.lo >> uint(r.lo), l.hi >> uint(r.lo)}
		}
		return tr.meet(ival{-inf, inf})
	case token.SHL:
		if l.lo >= 0 && r.lo == r.hi && r.lo >= 0 && r.lo < 32 && l.hi < inf>>32 {
			z = ival{l.lo << uint(r.lo), l.hi << uint(r.lo)}
		} else {
			return tr
		}
	case token.OR, token.XOR:
		if l.lo >= 0 && r.lo >= 0 && l.hi < inf>>1 && r.hi < inf>>1 {
			// bounded by the next power of two above both
			m := int64(1)
			for m <= l.hi || m <= r.hi {
				m <<= 1
			}
			return ival{0, m - 1}
		}
		return tr
	default:
		return tr
	}
	if z.within(tr) {
		return z
	}
	if record {
		if old, ok := a.wraps[x]; ok {
			z = z.join(old)
		}
		a.wraps[x] = z
	}
	return tr
}

// ---------------------------------------------------------------------------------
// facts on terms

func (a *absint) tfactsAt(at ssa.Instruction) []TFact {
	var out []TFact
	for _, f := range a.w.factsAt(at) {
		out = append(out, a.lift(f, 3)...)
	}
	// proving "on the edge pred→succ": the edge's own condition is added
	out = append(out, a.edgeCtx[at]...)
	out = a.diffFacts(out, at)
	return out
}

// diffFacts adds, for every fact comparing a difference with zero, the comparison of the
// operands (when neither operand can be large enough for the subtraction to wrap).
func (a *absint) diffFacts(out []TFact, at ssa.Instruction) []TFact {
	// a comparison of a difference with zero is a comparison of its operands (when neither
	// operand can be large enough for the subtraction to wrap)
	small := func(t Term) bool {
		if t.Len || t.Cap {
			return true
		}
		if a.diffBusy {
			return false
		}
		a.diffBusy = true
		r := a.rangeOfTerm(t, at, 2)
		a.diffBusy = false
		return r.lo >= -(1<<30) && r.hi <= 1<<30
	}
	n := len(out)
	for i := 0; i < n; i++ {
		f := out[i]
		if f.Op != "<" {
			continue
		}
		var sub *ssa.BinOp
		subLeft := false
		if k, ok := constInt(f.Y.V); ok && k == 0 && !f.Y.Len && !f.Y.Cap && !f.X.Len && !f.X.Cap {
			sub, _ = f.X.V.(*ssa.BinOp)
			subLeft = true
		} else if k, ok := constInt(f.X.V); ok && k == 0 && !f.X.Len && !f.X.Cap && !f.Y.Len && !f.Y.Cap {
			sub, _ = f.Y.V.(*ssa.BinOp)
		}
		if sub == nil || sub.Op != token.SUB {
			continue
		}
		x, y := termOf(sub.X), termOf(sub.Y)
		if !small(x) || !small(y) {
			continue
		}
		if subLeft {
			out = append(out, TFact{"<", x, y, f.Truth}) // (x-y < 0) == (x < y)
		} else {
			out = append(out, TFact{"<", y, x, f.Truth}) // (0 < x-y) == (y < x)
		}
	}
	return out
}

// lift converts an SSA-level fact to term facts and adds what it implies through predicate
// summaries of the called function (depth-limited).
func (a *absint) lift(f Fact, depth int) []TFact {
	var out []TFact
	switch f.Op {
	case "<", "==":
		out = append(out, TFact{f.Op, termOf(f.X), termOf(f.Y), f.Truth})
	}
	if depth <= 0 {
		return out
	}
	// facts about a call result: nil / non-nil / true / false
	var call *ssa.Call
	idx := -1
	want := ""
	if v, isNil, ok := nilFact(f); ok {
		call, idx = callOf(a.w.resolveLoad(v))
		if isNil {
			want = "nil"
		} else {
			want = "nonnil"
		}
	} else if f.Op == "true" {
		call, idx = callOf(a.w.resolveLoad(f.X))
		if f.Truth {
			want = "true"
		} else {
			want = "false"
		}
	}
	if call != nil {
		out = append(out, a.implied(call, idx, want, depth-1)...)
	}
	return out
}

// implied: facts over the caller's values that hold whenever result idx of call has outcome
// `want`, derived from the callee's body: the intersection over all returns with that outcome
// of the facts at the return (translated to the caller), including relations with other
// results of the same call.
func (a *absint) implied(call *ssa.Call, idx int, want string, depth int) []TFact {
	k := implKey{call, idx, want}
	if r, ok := a.implMemo[k]; ok {
		return r
	}
	a.implMemo[k] = nil
	cal := call.Call.StaticCallee()
	if cal == nil || cal.Blocks == nil {
		return nil
	}
	ninstr := 0
	for _, b := range cal.Blocks {
		ninstr += len(b.Instrs)
	}
	if ninstr > 400 {
		return nil
	}
	ri := idx
	if ri < 0 {
		ri = 0
	}
	// translate a callee value to a caller term
	var xlate func(v ssa.Value, ret *ssa.Return) (Term, bool)
	xlate = func(v ssa.Value, ret *ssa.Return) (Term, bool) {
		t := termOf(v)
		inner := stripIntConv(t.V)
		if p, ok := inner.(*ssa.Parameter); ok && p.Parent() == cal {
			i := paramIndex(p)
			if i >= 0 && i < len(call.Call.Args) {
				if !t.Len {
					return termOf(call.Call.Args[i]), true // the argument may itself be len(x)
				}
				return Term{Len: t.Len, Cap: t.Cap, V: call.Call.Args[i]}, true
			}
			return Term{}, false
		}
		if _, ok := inner.(*ssa.Const); ok {
			return Term{Len: t.Len, V: inner}, true
		}
		// another result of this very return -> the caller's extract
		for j, rv := range ret.Results {
			if a.w.resolveLoad(rv) == inner || stripIntConv(a.w.resolveLoad(rv)) == inner {
				if ex := extractOf(call, j); ex != nil && !t.Len {
					return Term{V: ex}, true
				}
			}
		}
		return Term{}, false
	}
	var acc map[string]TFact
	first := true
	resRange := map[int]ival{}
	for _, ret := range returnsOf(cal) {
		if ri >= len(ret.Results) {
			continue
		}
		rv := a.w.resolveLoad(ret.Results[ri])
		var local []TFact
		match := false
		unknown := false
		switch want {
		case "nil", "nonnil":
			isNil := isNilConst(stripIface(rv))
			_, isC := stripIface(rv).(*ssa.Const)
			switch {
			case isC:
				match = isNil == (want == "nil")
			case a.definitelyNonNil(rv):
				match = want == "nonnil"
			default:
				// may or may not be nil — unless the branch leading here tested it
				decided := false
				for _, f := range a.w.factsAt(ret) {
					if x, isNilF, ok := nilFact(f); ok && stripIface(a.w.resolveLoad(x)) == stripIface(rv) {
						decided = true
						match = isNilF == (want == "nil")
					}
				}
				if !decided {
					// this return may produce the outcome and nothing is known about it
					match = true
					unknown = true
				}
			}
		case "true", "false":
			if cst, ok := rv.(*ssa.Const); ok && cst.Value != nil && cst.Value.Kind() == constant.Bool {
				match = constant.BoolVal(cst.Value) == (want == "true")
			} else {
				// a computed boolean: this return yields the outcome exactly when the value has it
				match = true
				for _, nf := range normCond(rv, want == "true") {
					local = append(local, a.liftIn(nf, ret, depth)...)
				}
			}
		}
		if !match {
			continue
		}
		if unknown {
			acc, first = map[string]TFact{}, false
			continue
		}
		for _, f := range a.w.factsAt(ret) {
			local = append(local, a.liftIn(f, ret, depth)...)
		}
		// ranges of the other integer results on this return
		for j, ov := range ret.Results {
			if j == ri || !isIntType(ov.Type()) {
				continue
			}
			r := a.rangeAt(a.w.resolveLoad(ov), ret, 3)
			if old, ok := resRange[j]; ok {
				resRange[j] = old.join(r)
			} else {
				resRange[j] = r
			}
		}
		// value ranges of integer results at this return, as facts against constants
		set := map[string]TFact{}
		for _, tf := range local {
			x, ok1 := xlate(tf.X.V, ret)
			y, ok2 := xlate(tf.Y.V, ret)
			if !ok1 || !ok2 {
				continue
			}
			if tf.X.Len {
				x.Len, x.Cap = true, tf.X.Cap
			}
			if tf.Y.Len {
				y.Len, y.Cap = true, tf.Y.Cap
			}
			nf := TFact{tf.Op, x, y, tf.Truth}
			set[a.tfKey(nf)] = nf
		}
		if first {
			acc, first = set, false
		} else {
			for k := range acc {
				if _, ok := set[k]; !ok {
					delete(acc, k)
				}
			}
		}
	}
	var out []TFact
	for _, f := range acc {
		out = append(out, f)
	}
	if !first {
		for j, r := range resRange {
			ex := extractOf(call, j)
			if ex == nil {
				continue
			}
			if r.lo > -inf {
				out = append(out, TFact{"<", Term{V: ex}, Term{V: intConst(r.lo)}, false}) // ex >= lo
			}
			if r.hi < inf {
				out = append(out, TFact{"<", Term{V: intConst(r.hi)}, Term{V: ex}, false}) // ex <= hi
			}
		}
	}
	a.implMemo[k] = out
	return out
}

func intConst(k int64) *ssa.Const { return ssa.NewConst(constant.MakeInt64(k), types.Typ[types.Int]) }

// liftIn: lift a callee-level fact inside the callee (including what it implies further down).
func (a *absint) liftIn(f Fact, _ *ssa.Return, depth int) []TFact { return a.lift(f, depth) }

func (a *absint) tfKey(f TFact) string {
	return fmt.Sprintf("%s|%s|%s|%v", f.Op, a.termKey(f.X), a.termKey(f.Y), f.Truth)
}

func stripIntConv(v ssa.Value) ssa.Value {
	for {
		switch x := v.(type) {
		case *ssa.Convert:
			if isIntType(x.Type()) && isIntType(x.X.Type()) && typeRange(x.X.Type()).within(typeRange(x.Type())) {
				v = x.X
				continue
			}
		case *ssa.ChangeType:
			v = x.X
			continue
		}
		return v
	}
}

func extractOf(call *ssa.Call, idx int) ssa.Value {
	if call.Call.Signature().Results().Len() == 1 {
		if idx == 0 {
			return call
		}
		return nil
	}
	for _, r := range *call.Referrers() {
		if e, ok := r.(*ssa.Extract); ok && e.Index == idx {
			return e
		}
	}
	return nil
}

// ---------------------------------------------------------------------------------
// ranges at a program point

func (a *absint) rangeOfTerm(t Term, at ssa.Instruction, depth int) ival {
	if t.Len && t.Cap {
		r := a.lenOf(t.V)
		r.hi = inf // cap ≥ len
		return a.refine(t, r, at, depth)
	}
	if t.Len {
		r := a.lenOf(t.V)
		if rr, ok := a.callLenAt(t.V, at); ok {
			if m := r.meet(rr); !m.empty() {
				r = m
			}
		}
		return a.refine(t, r, at, depth)
	}
	return a.rangeAt(t.V, at, depth)
}

// callLenAt: the length of a slice result of a module helper as seen at `at`: only the
// helper's returns compatible with what is known there about the call's other results
// (err == nil, ok == true) contribute.
func (a *absint) callLenAt(v ssa.Value, at ssa.Instruction) (ival, bool) {
	if at == nil || a.callLenAtBusy {
		return ival{}, false
	}
	w := a.w
	call, idx := callOf(stripIface(w.resolveLoad(v)))
	if call == nil || w.isSynthetic(call) {
		return ival{}, false
	}
	h := call.Call.StaticCallee()
	if h == nil || !w.IsMod[h] || len(h.Blocks) == 0 {
		return ival{}, false
	}
	if idx < 0 {
		idx = 0
	}
	if idx >= h.Signature.Results().Len() {
		return ival{}, false
	}
	if _, isSl := h.Signature.Results().At(idx).Type().Underlying().(*types.Slice); !isSl {
		return ival{}, false
	}
	a.callLenAtBusy = true
	defer func() { a.callLenAtBusy = false }()
	type oc struct {
		idx  int
		want string
	}
	var known []oc
	for _, f := range w.factsAt(at) {
		x, outcome := factOutcome(f)
		if x == nil {
			continue
		}
		if fc, fi := callOf(w.resolveLoad(x)); fc == call {
			if fi < 0 {
				fi = 0
			}
			known = append(known, oc{fi, outcome})
		}
	}
	if len(known) == 0 {
		return ival{}, false
	}
	r := ival{1, 0}
	n := 0
	for _, ret := range returnsOf(h) {
		if idx >= len(ret.Results) {
			return ival{}, false
		}
		compatible := true
		for _, k := range known {
			if k.idx >= len(ret.Results) {
				continue
			}
			rv := stripIface(w.resolveLoad(ret.Results[k.idx]))
			switch k.want {
			case "nil", "nonnil":
				if cst, isC := rv.(*ssa.Const); isC {
					if isNilConst(cst) != (k.want == "nil") {
						compatible = false
					}
				} else if a.definitelyNonNil(rv) && k.want == "nil" {
					compatible = false
				} else {
					for _, rf := range w.factsAt(ret) {
						if fv, isNil, ok := nilFact(rf); ok && (fv == rv || w.sameKey(fv, rv)) && isNil != (k.want == "nil") {
							compatible = false
						}
					}
				}
			case "true", "false":
				if cst, isC := rv.(*ssa.Const); isC && cst.Value != nil && isBoolType(cst.Type()) {
					if (cst.Value.String() == "true") != (k.want == "true") {
						compatible = false
					}
				}
			}
		}
		if !compatible {
			continue
		}
		n++
		res := w.resolveLoad(ret.Results[idx])
		r = r.join(a.rangeOfTerm(Term{V: res, Len: true}, ret, 2))
	}
	if n == 0 || r.empty() {
		return ival{}, false
	}
	return r.meet(ival{0, inf}), true
}

func (a *absint) rangeAt(v ssa.Value, at ssa.Instruction, depth int) ival {
	var r ival
	switch x := v.(type) {
	case *ssa.BinOp:
		if isIntType(x.Type()) && depth > 0 {
			l := a.rangeAt(x.X, at, depth-1)
			rr := a.rangeAt(x.Y, at, depth-1)
			r = a.binop(x, l, rr, false).meet(typeRange(x.Type()))
		} else {
			r = a.eval(v)
		}
	case *ssa.Convert:
		if isIntType(x.Type()) && isIntType(x.X.Type()) && depth > 0 {
			in := a.rangeAt(x.X, at, depth-1)
			if in.within(typeRange(x.Type())) {
				r = in
			} else {
				r = typeRange(x.Type())
			}
		} else {
			r = a.eval(v)
		}
	case *ssa.ChangeType:
		return a.rangeAt(x.X, at, depth)
	default:
		if t := termOf(v); t.Len {
			r = a.lenOf(t.V)
			return a.refine(t, r, at, depth)
		}
		r = a.eval(v)
	}
	return a.refine(Term{V: v}, r, at, depth)
}

func (a *absint) refine(t Term, r ival, at ssa.Instruction, depth int) ival {
	if depth <= 0 || at == nil {
		return r
	}
	return a.refineWith(t, r, a.tfactsAt(at), at, depth)
}

// tfactsOnEdge: facts at the end of pred plus those of the edge pred→succ.
func (a *absint) tfactsOnEdge(last ssa.Instruction, pred, succ *ssa.BasicBlock) []TFact {
	out := a.tfactsAt(last)
	for _, f := range edgeFacts(pred, succ) {
		out = append(out, a.lift(f, 3)...)
	}
	return a.diffFacts(out, last)
}

func (a *absint) refineWith(t Term, r ival, facts []TFact, at ssa.Instruction, depth int) ival {
	if depth <= 0 {
		return r
	}
	// `!=` facts only trim the boundaries: pass again while something moved (x ∈ [0,2],
	// x != 1, x != 2 leaves {0} only on the second pass)
	for pass := 0; pass < 4; pass++ {
		r0 := r
		r = a.refineOnce(t, r, facts, at, depth)
		if r == r0 {
			break
		}
	}
	return r
}

func (a *absint) refineOnce(t Term, r ival, facts []TFact, at ssa.Instruction, depth int) ival {
	for _, f := range facts {
		isX, isY := a.sameTerm(f.X, t), a.sameTerm(f.Y, t)
		if !isX && !isY {
			continue
		}
		other := f.Y
		if isY {
			other = f.X
		}
		or := a.rangeOfTerm(other, nil, 0)
		if c, ok := other.V.(*ssa.Const); !ok || other.Len || c == nil {
			// non-constant other side: use its context-free range refined one level less
			or = a.rangeOfTerm(other, at, depth-1)
		}
		switch f.Op {
		case "<":
			switch {
			case f.Truth && isX: // t < other
				if or.hi < inf && or.hi-1 < r.hi {
					r.hi = or.hi - 1
				}
			case f.Truth && isY: // other < t
				if or.lo > -inf && or.lo+1 > r.lo {
					r.lo = or.lo + 1
				}
			case !f.Truth && isX: // t >= other
				if or.lo > r.lo {
					r.lo = or.lo
				}
			case !f.Truth && isY: // other >= t
				if or.hi < r.hi {
					r.hi = or.hi
				}
			}
		case "==":
			if f.Truth {
				r = r.meet(or)
			} else if or.lo == or.hi {
				if r.lo == or.lo {
					r.lo++
				}
				if r.hi == or.lo {
					r.hi--
				}
			}
		}
	}
	return r
}

// monotone: phi whose loop-carried operands are all phi-c (dir=-1) or phi+c (dir=+1), c ≥ 0;
// returns the non-carried (initial) operands.
func (a *absint) monotone(v ssa.Value) (dir int, inits []ssa.Value) {
	phi, ok := v.(*ssa.Phi)
	if !ok {
		return 0, nil
	}
	for _, e := range phi.Edges {
		bo, isBO := e.(*ssa.BinOp)
		if isBO && bo.X == ssa.Value(phi) && (bo.Op == token.ADD || bo.Op == token.SUB) {
			c := a.eval(bo.Y)
			if c.lo < 0 {
				return 0, nil
			}
			d := 1
			if bo.Op == token.SUB {
				d = -1
			}
			if dir != 0 && dir != d {
				return 0, nil
			}
			dir = d
			continue
		}
		inits = append(inits, e)
	}
	if dir == 0 || len(inits) == 0 {
		return 0, nil
	}
	return dir, inits
}

// nonNeg: the term is ≥ 0 at the point (interval, or x−y with y ≤ x).
func (a *absint) nonNeg(t Term, at ssa.Instruction) (bool, string) {
	r := a.rangeOfTerm(t, at, 3)
	if r.lo >= 0 {
		return true, r.String()
	}
	if !t.Len {
		if bo, ok := stripIntConv(t.V).(*ssa.BinOp); ok && bo.Op == token.SUB {
			if ok, why := a.proveLEd(termOf(bo.Y), termOf(bo.X), at, 4); ok {
				return true, "difference of y ≤ x: " + why
			}
		}
		if dir, inits := a.monotone(stripIntConv(t.V)); dir == 1 {
			all := true
			for _, i := range inits {
				if ok, _ := a.nonNeg(termOf(i), at); !ok {
					all = false
				}
			}
			if all {
				return true, "non-decreasing from a non-negative start"
			}
		}
	}
	zero := Term{V: ssa.NewConst(constant.MakeInt64(0), types.Typ[types.Int])}
	if ok, why := a.proveLinear(zero, t, at, 0); ok {
		return true, why
	}
	return false, r.String()
}

// proveLE: x ≤ y at the program point, by intervals, relational facts and a few sound rules.
func (a *absint) proveLE(x, y Term, at ssa.Instruction) (bool, string) {
	return a.proveLEd(x, y, at, 3)
}

func (a *absint) proveLEd(x, y Term, at ssa.Instruction, depth int) (bool, string) {
	if a.sameTerm(x, y) {
		return true, "same term"
	}
	// len(x) ≤ cap(x)
	if x.Len && !x.Cap && y.Len && y.Cap && a.sameTerm(Term{V: x.V}, Term{V: y.V}) {
		return true, "len ≤ cap"
	}
	rx, ry := a.rangeOfTerm(x, at, 3), a.rangeOfTerm(y, at, 3)
	if rx.hi <= ry.lo {
		return true, fmt.Sprintf("%s ≤ %s", rx, ry)
	}
	fail := fmt.Sprintf("%s = %s not ≤ %s = %s", a.termKey(x), rx, a.termKey(y), ry)
	if depth <= 0 {
		return false, fail
	}
	// library contract: the byte count of Read/ReadFrom/Write is ≤ len of its buffer
	if !x.Len && y.Len {
		if ex, ok := stripIntConv(x.V).(*ssa.Extract); ok && ex.Index == 0 {
			if call, ok := ex.Tuple.(*ssa.Call); ok && ioCountCall(call) && a.ioContractHolds(call) {
				if buf := ioBuffer(call); buf != nil && a.sameTerm(Term{V: buf}, Term{V: y.V}) {
					return true, "io contract: n ≤ len(buffer)"
				}
			}
		}
	}
	facts := a.tfactsAt(at)
	for _, f := range facts {
		switch {
		case f.Op == "<" && f.Truth && a.sameTerm(f.X, x) && a.sameTerm(f.Y, y):
			return true, "fact " + a.termKey(x) + " < " + a.termKey(y)
		case f.Op == "<" && !f.Truth && a.sameTerm(f.X, y) && a.sameTerm(f.Y, x):
			return true, "fact " + a.termKey(x) + " <= " + a.termKey(y)
		case f.Op == "==" && f.Truth && ((a.sameTerm(f.X, x) && a.sameTerm(f.Y, y)) || (a.sameTerm(f.X, y) && a.sameTerm(f.Y, x))):
			return true, "fact " + a.termKey(x) + " == " + a.termKey(y)
		}
	}
	if !x.Len {
		xv := stripIntConv(x.V)
		if bo, ok := xv.(*ssa.BinOp); ok {
			switch bo.Op {
			case token.SUB: // e - c ≤ y if e ≤ y and c ≥ 0
				if c := a.rangeAt(bo.Y, at, 2); c.lo >= 0 {
					if ok, why := a.proveLEd(termOf(bo.X), y, at, depth-1); ok {
						return true, why + ", minus a non-negative amount"
					}
				}
			case token.ADD: // e + 1 ≤ y if e < y
				if c := a.rangeAt(bo.Y, at, 2); c.lo == 1 && c.hi == 1 {
					if ok, why := a.proveLTd(termOf(bo.X), y, at, depth-1); ok {
						return true, why + ", so e+1 ≤ y"
					}
				}
			}
		}
		// a counter that only decreases stays ≤ its initial values
		if dir, inits := a.monotone(xv); dir == -1 {
			all := true
			why := ""
			for _, i := range inits {
				ok, wy := a.proveLEd(termOf(i), y, at, depth-1)
				if !ok {
					all = false
				}
				why = wy
			}
			if all {
				return true, "only decreases from its initial value; " + why
			}
		}
	}
	if y.Len && !y.Cap {
		if ms, ok := stripIface(a.w.resolveLoad(y.V)).(*ssa.MakeSlice); ok {
			if ok2, why := a.proveLEd(x, termOf(ms.Len), at, depth-1); ok2 {
				return true, "len(make(_, n)) = n; " + why
			}
		}
	}
	if ok, why := a.provePhiEdges(x, y, at, depth, false); ok {
		return true, why
	}
	if ok, why := a.provePhiLenEdges(x, y, depth); ok {
		return true, why
	}
	if ok, why := a.proveLinear(x, y, at, 0); ok {
		return true, why
	}
	// x ≤ e - 1 iff x < e
	if !y.Len {
		if bo, ok := stripIntConv(y.V).(*ssa.BinOp); ok && bo.Op == token.SUB {
			if k, isK := constInt(bo.Y); isK && k == 1 {
				if ok2, why := a.proveLTd(x, termOf(bo.X), at, depth-1); ok2 {
					return true, "x < e, so x ≤ e-1; " + why
				}
			}
		}
	}
	// z / k ≤ y if z ≤ y (z ≥ 0, k ≥ 1)
	if !x.Len {
		if bo, ok := stripIntConv(x.V).(*ssa.BinOp); ok && bo.Op == token.QUO {
			if k := a.rangeAt(bo.Y, at, 2); k.lo >= 1 {
				if n := a.rangeOfTerm(termOf(bo.X), at, 2); n.lo >= 0 {
					if ok2, why := a.proveLEd(termOf(bo.X), y, at, depth-1); ok2 {
						return true, "e/k ≤ e; " + why
					}
				}
			}
		}
	}
	// min(a, b, …) ≤ y if any argument is
	if !x.Len {
		if mc, ok := stripIntConv(x.V).(*ssa.Call); ok {
			if b, isB := mc.Call.Value.(*ssa.Builtin); isB && b.Name() == "min" {
				for _, arg := range mc.Call.Args {
					if ok2, why := a.proveLEd(termOf(arg), y, at, depth-1); ok2 {
						return true, "min(…) ≤ one of its arguments; " + why
					}
				}
			}
		}
	}
	if y.Len && y.Cap {
		switch yv := stripIface(a.w.resolveLoad(y.V)).(type) {
		case *ssa.MakeSlice: // cap(make(_, l, c)) = c
			if ok2, why := a.proveLEd(x, termOf(yv.Cap), at, depth-1); ok2 {
				return true, "cap(make(_, _, c)) = c; " + why
			}
		case *ssa.Call: // cap(append(s, ...)) ≥ cap(s)
			if b, isB := yv.Call.Value.(*ssa.Builtin); isB && b.Name() == "append" && len(yv.Call.Args) >= 1 {
				if ok2, why := a.proveLEd(x, Term{Len: true, Cap: true, V: yv.Call.Args[0]}, at, depth-1); ok2 {
					return true, "cap(append(s, …)) ≥ cap(s); " + why
				}
			}
		case *ssa.Slice: // cap(s[lo:hi]) = cap(s) - lo when there is no third index
			if yv.Max == nil && yv.Low == nil {
				if ok2, why := a.proveLEd(x, Term{Len: true, Cap: true, V: yv.X}, at, depth-1); ok2 {
					return true, "cap(s[:h]) = cap(s); " + why
				}
			}
		}
	}
	// transitivity through one fact: x ≤ z (fact) and z ≤ y
	for _, f := range facts {
		var z Term
		switch {
		case f.Op == "<" && f.Truth && a.sameTerm(f.X, x):
			z = f.Y
		case f.Op == "<" && !f.Truth && a.sameTerm(f.Y, x):
			z = f.X
		case f.Op == "==" && f.Truth && a.sameTerm(f.X, x):
			z = f.Y
		case f.Op == "==" && f.Truth && a.sameTerm(f.Y, x):
			z = f.X
		default:
			continue
		}
		if a.sameTerm(z, x) {
			continue
		}
		if ok, why := a.proveLEd(z, y, at, depth-1); ok {
			return true, "via " + a.termKey(z) + ": " + why
		}
	}
	return false, fail
}

// proveLT: x < y at the program point.
func (a *absint) proveLT(x, y Term, at ssa.Instruction) (bool, string) {
	return a.proveLTd(x, y, at, 3)
}

func (a *absint) proveLTd(x, y Term, at ssa.Instruction, depth int) (bool, string) {
	rx, ry := a.rangeOfTerm(x, at, 3), a.rangeOfTerm(y, at, 3)
	if rx.hi < ry.lo {
		return true, fmt.Sprintf("%s < %s", rx, ry)
	}
	fail := fmt.Sprintf("%s = %s not < %s = %s", a.termKey(x), rx, a.termKey(y), ry)
	// contract of slices.IndexFunc / slices.Index: the result is below len(s)
	if !x.Len && y.Len && !y.Cap {
		if ic := indexSearch(x.V); ic != nil && len(ic.Call.Args) == 2 && (ic.Call.Args[0] == y.V || a.w.sameKey(ic.Call.Args[0], y.V)) {
			return true, "result of " + stdCallee(&ic.Call) + " over the same slice"
		}
	}
	if depth <= 0 {
		return false, fail
	}
	facts := a.tfactsAt(at)
	for _, f := range facts {
		if f.Op == "<" && f.Truth && a.sameTerm(f.X, x) && a.sameTerm(f.Y, y) {
			return true, "fact " + a.termKey(x) + " < " + a.termKey(y)
		}
	}
	if !x.Len {
		xv := stripIntConv(x.V)
		// x ≤ e - 1 ... : a counter that only decreases from len(y)-1 stays < len(y)
		if dir, inits := a.monotone(xv); dir == -1 {
			all := true
			why := ""
			for _, i := range inits {
				ok, wy := a.proveLTd(termOf(i), y, at, depth-1)
				if !ok {
					all = false
				}
				why = wy
			}
			if all {
				return true, "only decreases from its initial value; " + why
			}
		}
		if bo, ok := xv.(*ssa.BinOp); ok && bo.Op == token.SUB {
			// e - c < y if e ≤ y and c ≥ 1
			if c := a.rangeAt(bo.Y, at, 2); c.lo >= 1 {
				if ok, why := a.proveLEd(termOf(bo.X), y, at, depth-1); ok {
					return true, why + ", minus at least one"
				}
			}
		}
	}
	if ok, why := a.provePhiEdges(x, y, at, depth, true); ok {
		return true, why
	}
	if ok, why := a.proveLinear(x, y, at, 1); ok {
		return true, why
	}
	if !x.Len {
		// e - c < y if e < y and c ≥ 0
		if bo, ok := stripIntConv(x.V).(*ssa.BinOp); ok && bo.Op == token.SUB {
			if c := a.rangeAt(bo.Y, at, 2); c.lo >= 0 {
				if ok2, why := a.proveLTd(termOf(bo.X), y, at, depth-1); ok2 {
					return true, why + ", minus a non-negative amount"
				}
			}
		}
	}
	// x < z (fact) and z ≤ y ; x ≤ z and z < y
	for _, f := range facts {
		if f.Op == "<" && f.Truth && a.sameTerm(f.X, x) && !a.sameTerm(f.Y, y) {
			if ok, why := a.proveLEd(f.Y, y, at, depth-1); ok {
				return true, "via " + a.termKey(f.Y) + ": " + why
			}
		}
	}
	return false, fail
}

// provePhiEdges: x is a phi (a loop counter in any loop shape, a merged index): x ⋈ y holds
// if on every feasible incoming edge the operand ⋈ y holds under the facts at the end of
// that edge's predecessor plus the edge's own condition. y must not be defined inside the
// cycle of the phi (it is evaluated where the phi is used); that is the case for every term
// whose value dominates the phi's block.
func (a *absint) provePhiEdges(x, y Term, at ssa.Instruction, depth int, strict bool) (bool, string) {
	if x.Len || depth <= 0 {
		return false, ""
	}
	phi, ok := stripIntConv(x.V).(*ssa.Phi)
	if !ok || a.phiProof[phi] {
		return false, ""
	}
	// y stable: a constant, a parameter, or an instruction whose block dominates the phi's
	stable := func(v ssa.Value) bool {
		switch t := v.(type) {
		case *ssa.Const, *ssa.Parameter, *ssa.Global, *ssa.FreeVar:
			return true
		case ssa.Instruction:
			return t.Block() != nil && t.Parent() == phi.Parent() && t.Block() != phi.Block() && t.Block().Dominates(phi.Block())
		}
		return false
	}
	if !stable(y.V) {
		// len(s) with s a value that dominates the phi is stable too (the term is about s)
		if !(y.Len && stable(stripIface(y.V))) {
			return false, ""
		}
	}
	if a.phiProof == nil {
		a.phiProof = map[*ssa.Phi]bool{}
	}
	a.phiProof[phi] = true
	defer delete(a.phiProof, phi)
	if a.edgeCtx == nil {
		a.edgeCtx = map[ssa.Instruction][]TFact{}
	}
	n := 0
	for i, e := range phi.Edges {
		pred := phi.Block().Preds[i]
		if deadEdge(pred, phi.Block()) || len(pred.Instrs) == 0 {
			continue
		}
		n++
		last := pred.Instrs[0] // facts are per block: any instruction of pred stands for its end
		var ef []TFact
		for _, f := range edgeFacts(pred, phi.Block()) {
			ef = append(ef, a.lift(f, 2)...)
		}
		old, had := a.edgeCtx[last]
		a.edgeCtx[last] = append(append([]TFact{}, old...), ef...)
		var ok2 bool
		if strict {
			ok2, _ = a.proveLTd(termOf(e), y, last, depth-1)
		} else {
			ok2, _ = a.proveLEd(termOf(e), y, last, depth-1)
		}
		if had {
			a.edgeCtx[last] = old
		} else {
			delete(a.edgeCtx, last)
		}
		if !ok2 {
			return false, ""
		}
	}
	if n == 0 {
		return false, ""
	}
	return true, "holds for the operand of every incoming edge of the phi"
}

// provePhiLenEdges: the dual for a merged slice on the right: k ≤ len(phi(s1, s2, …)) holds
// when k ≤ len(si) holds on every live incoming edge (k a constant, or a value defined before
// the branches that merge in the phi).
func (a *absint) provePhiLenEdges(x, y Term, depth int) (bool, string) {
	if !y.Len || x.Len || depth <= 0 {
		return false, ""
	}
	phi, ok := stripIface(y.V).(*ssa.Phi)
	if !ok || a.phiProof[phi] {
		return false, ""
	}
	if _, isK := constInt(x.V); !isK {
		// a value computed before the branches that merge here (the size the buffer was grown
		// to on one of them): it means the same on every incoming edge
		switch xv := x.V.(type) {
		case *ssa.Parameter:
		case ssa.Instruction:
			if xv.Block() == nil || xv.Parent() != phi.Parent() {
				return false, ""
			}
			for i := range phi.Edges {
				pred := phi.Block().Preds[i]
				if a.deadPhiEdge(phi, i) {
					continue
				}
				if !xv.Block().Dominates(pred) {
					return false, ""
				}
			}
			if _, isPhi := x.V.(*ssa.Phi); isPhi && xv.Block() == phi.Block() {
				return false, ""
			}
		default:
			return false, ""
		}
	}
	if a.phiProof == nil {
		a.phiProof = map[*ssa.Phi]bool{}
	}
	a.phiProof[phi] = true
	defer delete(a.phiProof, phi)
	if a.edgeCtx == nil {
		a.edgeCtx = map[ssa.Instruction][]TFact{}
	}
	n := 0
	for i, e := range phi.Edges {
		pred := phi.Block().Preds[i]
		if a.deadPhiEdge(phi, i) || len(pred.Instrs) == 0 {
			continue
		}
		n++
		last := pred.Instrs[0]
		var ef []TFact
		for _, f := range edgeFacts(pred, phi.Block()) {
			ef = append(ef, a.lift(f, 2)...)
		}
		old, had := a.edgeCtx[last]
		a.edgeCtx[last] = append(append([]TFact{}, old...), ef...)
		ok2, _ := a.proveLEd(x, Term{V: e, Len: true, Cap: y.Cap}, last, depth-1)
		if had {
			a.edgeCtx[last] = old
		} else {
			delete(a.edgeCtx, last)
		}
		if !ok2 {
			return false, ""
		}
	}
	if n == 0 {
		return false, ""
	}
	return true, "holds for the length of the operand of every incoming edge of the phi"
}

// ioContractHolds: the byte-count contract n ≤ len(buf) may be assumed for this call: a
// library implementation keeps it by specification; an implementation inside the module that
// the call can reach (interface call resolved through the call graph) must be shown to keep it
// — STUNConn.ReadFrom, for one, returns the size of the frame even when the caller's buffer
// is shorter, so a reader that may be handed a STUNConn has to compare n with its buffer.
func (a *absint) ioContractHolds(call *ssa.Call) bool {
	if a.ioOK == nil {
		a.ioOK = map[*ssa.Function]int{}
	}
	var callees []*ssa.Function
	if h := call.Call.StaticCallee(); h != nil {
		callees = append(callees, h)
	} else if n := a.w.CG.Nodes[call.Parent()]; n != nil {
		for _, e := range n.Out {
			if e.Site == ssa.CallInstruction(call) {
				callees = append(callees, e.Callee.Func)
			}
		}
	}
	for _, h := range callees {
		if !a.w.IsMod[h] || len(h.Blocks) == 0 {
			continue
		}
		switch a.ioOK[h] {
		case 1:
			continue
		case 2:
			return false
		}
		a.ioOK[h] = 2 // recursion: not assumed
		ok := true
		var bufP *ssa.Parameter
		for _, p := range h.Params {
			if sl, isSl := p.Type().Underlying().(*types.Slice); isSl {
				if b, isB := sl.Elem().Underlying().(*types.Basic); isB && b.Kind() == types.Uint8 {
					bufP = p
					break
				}
			}
		}
		if bufP == nil {
			ok = false
		} else {
			for _, r := range returnsOf(h) {
				if len(r.Results) == 0 {
					ok = false
					break
				}
				if le, _ := a.proveLE(termOf(a.w.resolveLoad(r.Results[0])), Term{V: bufP, Len: true}, r); !le {
					ok = false
					break
				}
			}
		}
		if ok {
			a.ioOK[h] = 1
		} else {
			return false
		}
	}
	return true
}

// ioCountCall: Read/ReadFrom/Write/WriteTo/ReadFull-style calls whose first result is a byte
// count n with 0 ≤ n ≤ len(first byte-slice argument) by the io / net contracts.
func ioCountCall(call *ssa.Call) bool {
	name := ""
	if call.Call.IsInvoke() {
		name = call.Call.Method.Name()
	} else if cal := call.Call.StaticCallee(); cal != nil {
		name = cal.Name()
	}
	switch name {
	case "Read", "ReadFrom", "Write", "WriteTo", "ReadFull", "ReadAtLeast":
		return true
	}
	return false
}

// ioBuffer: the byte slice the count of an ioCountCall refers to.
func ioBuffer(call *ssa.Call) ssa.Value {
	for _, a := range call.Call.Args {
		if sl, ok := a.Type().Underlying().(*types.Slice); ok {
			if b, ok := sl.Elem().Underlying().(*types.Basic); ok && b.Kind() == types.Uint8 {
				return a
			}
		}
	}
	return nil
}

// paramRange: for a function that is only called statically from inside the module (not
// exported API, not used as a value), the join of the argument ranges at its call sites.
func (a *absint) paramRange(p *ssa.Parameter) ival {
	if r, ok := a.paramMemo[p]; ok {
		if r == nil {
			return typeRange(p.Type())
		}
		return *r
	}
	a.paramMemo[p] = nil
	fn := p.Parent()
	tr := typeRange(p.Type())
	if isBoundWrapper(fn) {
		// the wrapper behind a method value x.m: called wherever that function value is
		// called; the call graph (VTA, sound for module code) lists those dynamic call sites
		node := a.w.CG.Nodes[fn]
		if node == nil || len(node.In) == 0 {
			return tr
		}
		idx := paramIndex(p)
		r := ival{1, 0}
		for _, e := range node.In {
			if e.Site == nil || e.Caller.Func == nil || !a.w.IsMod[e.Caller.Func] || e.Site.Common().IsInvoke() {
				return tr
			}
			args := e.Site.Common().Args
			if idx < 0 || idx >= len(args) {
				return tr
			}
			r = r.join(a.rangeAt(args[idx], e.Site, 2))
		}
		r = r.meet(tr)
		a.paramMemo[p] = &r
		return r
	}
	if fn.Object() == nil || fn.Object().Exported() || fn.Parent() != nil {
		return tr
	}
	// any use of the function as a value defeats the enumeration of callers
	if refs := fn.Referrers(); refs != nil {
		for _, r := range *refs {
			if ci, ok := r.(ssa.CallInstruction); !ok || ci.Common().StaticCallee() != fn {
				return tr
			}
		}
	}
	sites := a.w.callsTo(fn)
	if len(sites) == 0 {
		return tr
	}
	idx := paramIndex(p)
	r := ival{1, 0}
	for _, cs := range sites {
		args := cs.Common().Args
		if idx >= len(args) {
			return tr
		}
		r = r.join(a.rangeAt(args[idx], cs, 2))
	}
	r = r.meet(tr)
	a.paramMemo[p] = &r
	return r
}

// fieldRange: invariant of an unexported integer field by induction over all its writers:
// the join of the ranges of every value stored into it in the module (evaluated at the store,
// assuming the invariant for loads of the field itself), plus 0 when some composite literal
// or new() of the struct leaves it unset.
func (a *absint) fieldRange(f *types.Var) *ival {
	if r, ok := a.fieldMemo[f]; ok {
		return r
	}
	a.fieldMemo[f] = nil
	if f.Exported() || f.Pkg() == nil || !strings.HasPrefix(f.Pkg().Path(), modPath) {
		return nil
	}
	w := a.w
	var stores []*ssa.Store
	unsetAlloc := false
	owner := fieldOwnerNamed(w, f)
	for _, fn := range w.ModFns {
		w.eachInstr(fn, func(in ssa.Instruction) {
			switch x := in.(type) {
			case *ssa.Store:
				if fa, ok := x.Addr.(*ssa.FieldAddr); ok && fieldOf(fa) == f {
					stores = append(stores, x)
				}
			case *ssa.Alloc:
				if owner != nil && isPtrToNamed(x.Type(), owner) {
					set := false
					for _, r := range *x.Referrers() {
						if fa, ok := r.(*ssa.FieldAddr); ok && fieldOf(fa) == f {
							for _, r2 := range *fa.Referrers() {
								if st, ok := r2.(*ssa.Store); ok && st.Addr == ssa.Value(fa) {
									set = true
								}
							}
						}
					}
					if !set {
						unsetAlloc = true
					}
				}
			}
		})
	}
	if len(stores) == 0 {
		return nil
	}
	var thresholds []int64
	seenFn := map[*ssa.Function]bool{}
	for _, st := range stores {
		if seenFn[st.Parent()] {
			continue
		}
		seenFn[st.Parent()] = true
		w.eachInstr(st.Parent(), func(in ssa.Instruction) {
			if bo, ok := in.(*ssa.BinOp); ok {
				for _, o := range []ssa.Value{bo.X, bo.Y} {
					if k, isC := constInt(o); isC {
						thresholds = append(thresholds, k)
					}
				}
			}
		})
	}
	// induction: start from the join of stores that do not read the field, iterate
	cur := ival{1, 0}
	if unsetAlloc {
		cur = ival{0, 0}
	}
	tr := typeRange(f.Type())
	for iter := 0; iter < 10; iter++ {
		a.fieldInv[f] = cur
		if cur.empty() {
			a.fieldInv[f] = ival{1, 0}
		}
		saveMemo, saveSolve := a.memo, a.inSolve
		a.memo = map[ssa.Value]ival{}
		a.inSolve = true
		next := cur
		for _, st := range stores {
			next = next.join(a.rangeAt(st.Val, st, 3))
		}
		a.memo, a.inSolve = saveMemo, saveSolve
		next = next.meet(tr)
		if next == cur {
			break
		}
		if iter >= 2 && !cur.empty() {
			// widening with thresholds: the constants the writers compare against
			if next.lo < cur.lo {
				nl := tr.lo
				for _, t := range thresholds {
					if t <= next.lo && t > nl {
						nl = t
					}
				}
				next.lo = nl
			}
			if next.hi > cur.hi {
				nh := tr.hi
				for _, t := range thresholds {
					if t >= next.hi && t < nh {
						nh = t
					}
				}
				next.hi = nh
			}
		}
		cur = next
	}
	delete(a.fieldInv, f)
	if cur.empty() {
		return nil
	}
	a.fieldMemo[f] = &cur
	return &cur
}

func fieldOwnerNamed(w *World, f *types.Var) *types.Named {
	if f.Pkg() == nil {
		return nil
	}
	sc := f.Pkg().Scope()
	for _, name := range sc.Names() {
		tn, ok := sc.Lookup(name).(*types.TypeName)
		if !ok {
			continue
		}
		st, ok := tn.Type().Underlying().(*types.Struct)
		if !ok {
			continue
		}
		for i := 0; i < st.NumFields(); i++ {
			if st.Field(i) == f {
				n, _ := tn.Type().(*types.Named)
				return n
			}
		}
	}
	return nil
}

// definitelyNonNil: values that cannot be nil: boxed concrete values, fresh allocations,
// closures, and package-level error variables initialised once with errors.New / fmt.Errorf.
func (a *absint) definitelyNonNil(v ssa.Value) bool {
	v = a.w.resolveLoad(v)
	switch x := v.(type) {
	case *ssa.MakeInterface:
		if _, isPtr := x.X.Type().Underlying().(*types.Pointer); isPtr {
			return a.definitelyNonNil(x.X)
		}
		return true
	case *ssa.Alloc, *ssa.MakeClosure, *ssa.MakeSlice, *ssa.MakeMap, *ssa.MakeChan:
		return true
	case *ssa.ChangeInterface:
		return a.definitelyNonNil(x.X)
	case *ssa.UnOp:
		if g, ok := x.X.(*ssa.Global); ok && x.Op == token.MUL {
			return a.globalNonNil(g)
		}
	case *ssa.Call:
		if cal := x.Call.StaticCallee(); cal != nil {
			switch cal.String() {
			case "errors.New", "fmt.Errorf":
				return true
			}
			// a constructor of the module: every return yields a fresh allocation
			if a.w.IsMod[cal] && len(cal.Blocks) > 0 && cal.Signature.Results().Len() >= 1 && !a.nnBusy[cal] {
				if a.nnBusy == nil {
					a.nnBusy = map[*ssa.Function]bool{}
				}
				a.nnBusy[cal] = true
				all := true
				n := 0
				for _, r := range returnsOf(cal) {
					n++
					if len(r.Results) == 0 || !a.definitelyNonNil(r.Results[0]) {
						all = false
					}
				}
				delete(a.nnBusy, cal)
				return all && n > 0
			}
		}
	case *ssa.Extract:
		if x.Index == 0 {
			if c, ok := x.Tuple.(*ssa.Call); ok && c.Call.StaticCallee() != nil && a.w.IsMod[c.Call.StaticCallee()] {
				return a.definitelyNonNil(c) // result #0 of a constructor returning (value, error)? only when every return is non-nil
			}
		}
	}
	return false
}

func (a *absint) globalNonNil(g *ssa.Global) bool {
	if r, ok := a.globalNN[g]; ok {
		return r == 1
	}
	a.globalNN[g] = 0
	pkg := g.Pkg
	if pkg == nil {
		return false
	}
	n, good := 0, true
	// all stores to the global anywhere in its package (init and others)
	for _, m := range pkg.Members {
		fn, ok := m.(*ssa.Function)
		if !ok {
			continue
		}
		for _, f := range withAnon(fn) {
			for _, b := range f.Blocks {
				for _, in := range b.Instrs {
					st, ok := in.(*ssa.Store)
					if !ok || st.Addr != ssa.Value(g) {
						continue
					}
					n++
					if !a.definitelyNonNil(st.Val) {
						good = false
					}
				}
			}
		}
	}
	if n >= 1 && good && !g.Object().Exported() || n >= 1 && good && g.Object().Exported() && isSentinelError(g) {
		a.globalNN[g] = 1
		return true
	}
	return false
}

// isSentinelError: exported package-level error variables are assumed not to be reassigned
// from outside their package (Go convention for sentinel errors).
func isSentinelError(g *ssa.Global) bool {
	return strings.HasPrefix(g.Name(), "Err") || strings.HasPrefix(g.Name(), "err")
}

// ---------------------------------------------------------------------------------
// length of a heap slice field along the paths of a function (e.g. c.Raw in the ChannelData
// encoder, which is grown by a callee before being sliced)

type flKey struct {
	fn   *ssa.Function
	base string
	f    *types.Var
}

type flRes struct {
	atLoad map[*ssa.UnOp]ival
	atRet  ival
}

func (a *absint) fieldLenAtLoad(ld *ssa.UnOp) (ival, bool) {
	fa, ok := ld.X.(*ssa.FieldAddr)
	if !ok {
		return ival{}, false
	}
	if _, isSlice := ld.Type().Underlying().(*types.Slice); !isSlice {
		return ival{}, false
	}
	if _, isAlloc := rootAddr(fa).(*ssa.Alloc); isAlloc {
		return ival{}, false
	}
	res := a.fieldLen(ld.Parent(), a.w.key(fa.X), fieldOf(fa), 0)
	if res == nil {
		return ival{}, false
	}
	r, ok := res.atLoad[ld]
	return r, ok
}

func (a *absint) fieldLen(fn *ssa.Function, base string, f *types.Var, depth int) *flRes {
	if a.flMemo == nil {
		a.flMemo = map[flKey]*flRes{}
	}
	k := flKey{fn, base, f}
	if depth == 0 {
		if r, ok := a.flMemo[k]; ok {
			return r
		}
		a.flMemo[k] = nil
	}
	if depth > 2 || len(fn.Blocks) == 0 {
		return nil
	}
	w := a.w
	isLoc := func(addr ssa.Value) bool {
		fa, ok := addr.(*ssa.FieldAddr)
		return ok && fieldOf(fa) == f && w.key(fa.X) == base
	}
	res := &flRes{atLoad: map[*ssa.UnOp]ival{}, atRet: ival{1, 0}}
	in := map[*ssa.BasicBlock]ival{fn.Blocks[0]: {0, inf}}
	// the most recent load of the location in a block that is still current at the block's end
	for iter := 0; iter < 8; iter++ {
		changed := false
		for _, b := range fn.Blocks {
			cur, ok := in[b]
			if !ok {
				continue
			}
			var curLoad *ssa.UnOp
			for _, insn := range b.Instrs {
				switch x := insn.(type) {
				case *ssa.UnOp:
					if x.Op == token.MUL && isLoc(x.X) {
						old, had := res.atLoad[x]
						nv := cur
						if had {
							nv = old.join(cur)
						}
						res.atLoad[x] = nv
						curLoad = x
					}
				case *ssa.Store:
					if isLoc(x.Addr) {
						cur = a.lenOf(x.Val)
						// len(x[:n]) etc. may refer to loads of the field itself
						curLoad = nil
					}
				case ssa.CallInstruction:
					cal := x.Common().StaticCallee()
					if cal != nil && w.IsMod[cal] && w.storeSet(cal)[f] {
						post := ival{0, inf}
						// receiver/argument equal to the base object
						for i, arg := range x.Common().Args {
							if w.key(arg) == base && i < len(cal.Params) {
								if r := a.calleeFieldLen(cal, i, f, x.Common().Args, depth+1); r != nil {
									post = *r
								}
							}
						}
						cur = post
						curLoad = nil
					}
				case *ssa.Return:
					res.atRet = res.atRet.join(cur)
				}
			}
			for _, s := range liveSuccs(b) {
				out := cur
				if curLoad != nil {
					var fs []TFact
					for _, ef := range edgeFacts(b, s) {
						fs = append(fs, a.lift(ef, 2)...)
					}
					out = a.refineWith(Term{Len: true, V: curLoad}, out, fs, nil, 2)
				}
				old, had := in[s]
				nv := out
				if had {
					nv = old.join(out)
					if iter >= 4 && nv != old {
						if nv.lo < old.lo {
							nv.lo = 0
						}
						if nv.hi > old.hi {
							nv.hi = inf
						}
					}
				}
				if !had || nv != old {
					in[s] = nv
					changed = true
				}
			}
		}
		if !changed {
			break
		}
	}
	if depth == 0 {
		a.flMemo[k] = res
	}
	return res
}

// calleeFieldLen: len(param_i.f) when cal returns, with cal's integer parameters bound to the
// ranges of the actual arguments.
func (a *absint) calleeFieldLen(cal *ssa.Function, i int, f *types.Var, args []ssa.Value, depth int) *ival {
	saveMemo, saveSolve := a.memo, a.inSolve
	a.memo = map[ssa.Value]ival{}
	a.inSolve = true
	var bound []*ssa.Parameter
	for j, p := range cal.Params {
		if j < len(args) && isIntType(p.Type()) {
			if _, dup := a.assume[p]; !dup {
				a.assume[p] = saveEval(a, saveMemo, args[j])
				bound = append(bound, p)
			}
		}
	}
	res := a.fieldLen(cal, a.w.key(cal.Params[i]), f, depth)
	for _, p := range bound {
		delete(a.assume, p)
	}
	a.memo, a.inSolve = saveMemo, saveSolve
	if res == nil || res.atRet.empty() {
		return nil
	}
	r := res.atRet
	return &r
}

func saveEval(a *absint, memo map[ssa.Value]ival, v ssa.Value) ival {
	cur := a.memo
	a.memo = memo
	solve := a.inSolve
	a.inSolve = false
	r := a.eval(v)
	a.memo, a.inSolve = cur, solve
	return r
}

// bigRemainder — library contract of math/big: after z.DivMod(x, y, m) with y > 0, 0 ≤ m < y.
// r.Int64() is in [0, k-1] when every call in the function that may modify r is such a DivMod
// whose divisor is big.NewInt(k), k a positive constant.
func (a *absint) bigRemainder(call *ssa.Call) (ival, bool) {
	r := call.Call.Args[0]
	fn := call.Parent()
	k := int64(-1)
	ok := true
	a.w.eachInstr(fn, func(in ssa.Instruction) {
		c2, isC := in.(*ssa.Call)
		if !isC || c2 == call {
			return
		}
		cal := c2.Call.StaticCallee()
		if cal == nil {
			return
		}
		uses := false
		for _, arg := range c2.Call.Args {
			if arg == r {
				uses = true
			}
		}
		if !uses {
			return
		}
		if cal.String() == "(*math/big.Int).DivMod" && len(c2.Call.Args) == 4 && c2.Call.Args[3] == r && c2.Call.Args[0] != r {
			if nc, _ := callOf(c2.Call.Args[2]); nc != nil && nc.Call.StaticCallee() != nil && nc.Call.StaticCallee().String() == "math/big.NewInt" {
				if kk, isK := constInt(nc.Call.Args[0]); isK && kk > 0 {
					// the divisor object must not be modified either: it is only ever an argument in read position
					if k == -1 || k == kk {
						k = kk
						return
					}
				}
			}
			ok = false
			return
		}
		switch cal.String() {
		case "(*math/big.Int).Int64", "(*math/big.Int).Cmp", "(*math/big.Int).Sign":
			return // read-only uses
		}
		ok = false
	})
	if ok && k > 0 {
		return ival{0, k - 1}, true
	}
	return ival{}, false
}

// lenPostCand: a length post-condition of module function h's idx-th (slice) result: on every
// return len(result) equals the candidate — parameter p itself (Len false) or len(p).
type lenPostCand struct {
	p   *ssa.Parameter
	len bool
}

func (a *absint) lenPost(h *ssa.Function, idx int) (lenPostCand, bool) {
	type key struct {
		h   *ssa.Function
		idx int
	}
	if a.lenPosts == nil {
		a.lenPosts = map[interface{}]*lenPostCand{}
	}
	k := key{h, idx}
	if r, ok := a.lenPosts[k]; ok {
		if r == nil {
			return lenPostCand{}, false
		}
		return *r, true
	}
	a.lenPosts[k] = nil
	rets := returnsOf(h)
	if len(rets) == 0 || len(h.Blocks) == 0 {
		return lenPostCand{}, false
	}
	var cands []lenPostCand
	for _, p := range h.Params {
		if isIntType(p.Type()) {
			cands = append(cands, lenPostCand{p, false})
		} else if _, isSl := p.Type().Underlying().(*types.Slice); isSl {
			cands = append(cands, lenPostCand{p, true})
		}
	}
	for _, cd := range cands {
		ct := Term{V: cd.p, Len: cd.len}
		all := true
		for _, r := range rets {
			if idx >= len(r.Results) {
				all = false
				break
			}
			res := a.w.resolveLoad(r.Results[idx])
			if isNilConst(res) {
				// an error return hands back no slice: its length (0) is never relied upon
				// together with a nil error; require the paired error to be non-nil
				if n := len(r.Results); n >= 2 && idx < n-1 && !isNilConst(a.w.resolveLoad(r.Results[n-1])) {
					continue
				}
				all = false
				break
			}
			rt := Term{V: res, Len: true}
			le, _ := a.proveLE(rt, ct, r)
			ge, _ := a.proveLE(ct, rt, r)
			if os.Getenv("TURNCHECK_LPDEBUG") != "" {
				fmt.Fprintf(os.Stderr, "lenPost %s cand %s ret %s: len(%s) le=%v ge=%v\n", fname(h), a.termKey(ct), a.w.instrPos(r), a.w.key(res), le, ge)
			}
			if !le || !ge {
				all = false
				break
			}
		}
		if all {
			c := cd
			a.lenPosts[k] = &c
			return cd, true
		}
	}
	return lenPostCand{}, false
}

// callLen: the length of result idx of a call of a module helper.
func (a *absint) callLen(call *ssa.Call, idx int) (ival, bool) {
	h := call.Call.StaticCallee()
	if h == nil || !a.w.IsMod[h] || len(h.Blocks) == 0 || a.callLenBusy[h] {
		return ival{}, false
	}
	if idx < 0 {
		idx = 0
	}
	if idx >= h.Signature.Results().Len() {
		return ival{}, false
	}
	if _, isSl := h.Signature.Results().At(idx).Type().Underlying().(*types.Slice); !isSl {
		return ival{}, false
	}
	if a.callLenBusy == nil {
		a.callLenBusy = map[*ssa.Function]bool{}
	}
	a.callLenBusy[h] = true
	defer delete(a.callLenBusy, h)
	if cd, ok := a.lenPost(h, idx); ok {
		if j := paramIndex(cd.p); j >= 0 && j < len(call.Call.Args) {
			if cd.len {
				return a.lenOf(call.Call.Args[j]), true
			}
			return a.eval(call.Call.Args[j]).meet(ival{0, inf}), true
		}
	}
	// context-free join over the returns
	r := ival{1, 0}
	for _, ret := range returnsOf(h) {
		if idx >= len(ret.Results) {
			return ival{}, false
		}
		res := a.w.resolveLoad(ret.Results[idx])
		r = r.join(a.rangeOfTerm(Term{V: res, Len: true}, ret, 2))
	}
	if r.empty() {
		return ival{}, false
	}
	return r.meet(ival{0, inf}), true
}

// forwardedStore: the value of the last store to the same field of the same object that
// precedes the load in its block, when nothing in between can write that field.
func (a *absint) forwardedStore(ld *ssa.UnOp, fa *ssa.FieldAddr) ssa.Value {
	b := ld.Block()
	if b == nil {
		return nil
	}
	f := fieldOf(fa)
	idx := indexIn(ld)
	for i := idx - 1; i >= 0; i-- {
		switch x := b.Instrs[i].(type) {
		case *ssa.Store:
			fa2, ok := x.Addr.(*ssa.FieldAddr)
			if !ok || fieldOf(fa2) != f {
				continue
			}
			if fa2.X == fa.X || a.w.sameKey(fa2.X, fa.X) {
				return x.Val
			}
			return nil // a store to the same field of possibly another object
		case ssa.CallInstruction:
			if cal := x.Common().StaticCallee(); cal != nil && a.w.IsMod[cal] && !a.w.storeSet(cal)[f] {
				continue
			}
			if cal := x.Common().StaticCallee(); cal != nil && !a.w.IsMod[cal] {
				continue // library code does not know our struct fields
			}
			return nil
		}
	}
	return nil
}
