package main

// Linear reasoning for bounds obligations.
//
// An index such as padded[offset+i] with offset = n - len(src), i < len(src), len(padded) = n
// is in range for a reason no interval shows: (n - len(src) + i) < n  ⇔  i < len(src). Terms
// are normalised to integer linear forms  c0 + Σ ci·atom_i  over atoms (SSA values that are
// not themselves +, -, ·const; len/cap terms), and  x < y  is proven when  y - x  minus the
// slack of ONE known fact (a < b gives b - a ≥ 1; ¬(b < a) gives b - a ≥ 0; a == b both ways)
// is a form whose interval is ≥ the remaining requirement. Arithmetic is that of ℤ: the
// rule applies only when every atom involved is small (|range| ≤ 2^30), so that the machine
// expression cannot wrap even where int is 32 bits.

import (
	"fmt"
	"go/token"
	"go/types"
	"os"
	"sort"

	"golang.org/x/tools/go/ssa"
)

type linForm struct {
	c     int64
	coef  map[string]int64
	atoms map[string]Term
	ok    bool
}

func newLin() linForm {
	return linForm{coef: map[string]int64{}, atoms: map[string]Term{}, ok: true}
}

func (l linForm) addScaled(o linForm, k int64) linForm {
	if !l.ok || !o.ok {
		return linForm{}
	}
	r := newLin()
	r.c = l.c + k*o.c
	for a, c := range l.coef {
		r.coef[a] = c
		r.atoms[a] = l.atoms[a]
	}
	for a, c := range o.coef {
		r.coef[a] += k * c
		r.atoms[a] = o.atoms[a]
	}
	for a, c := range r.coef {
		if c == 0 {
			delete(r.coef, a)
			delete(r.atoms, a)
		}
	}
	return r
}

func (a *absint) linAtom(t Term) linForm {
	r := newLin()
	k := a.termKey(t)
	r.coef[k] = 1
	r.atoms[k] = t
	return r
}

// linOf: the linear form of a term (depth-limited).
func (a *absint) linOf(t Term, depth int) linForm { return a.linOfAt(t, depth, nil) }

// linOfAt: arithmetic in a fixed-width type narrower than int is decomposed only where its
// ℤ-value provably fits the type at `at` (otherwise the machine value wraps and is not the
// linear form); such an expression stays an atom.
func (a *absint) linOfAt(t Term, depth int, at ssa.Instruction) linForm {
	if t.Len {
		if !t.Cap {
			switch x := stripIface(a.w.resolveLoad(t.V)).(type) {
			case *ssa.MakeSlice:
				if depth > 0 {
					return a.linOfAt(termOf(x.Len), depth-1, at)
				}
			}
		} else if ms, ok := stripIface(a.w.resolveLoad(t.V)).(*ssa.MakeSlice); ok && depth > 0 {
			return a.linOfAt(termOf(ms.Cap), depth-1, at)
		}
		// len(x[lo:hi]) = hi - lo, len(x[lo:]) = len(x) - lo (the slice expression itself is
		// an obligation of its own: here it is assumed to have succeeded)
		if !t.Cap && depth > 0 {
			if sl, ok := stripIface(a.w.resolveLoad(t.V)).(*ssa.Slice); ok {
				if _, isStr := sl.X.Type().Underlying().(*types.Basic); !isStr {
					var hi linForm
					if sl.High != nil {
						hi = a.linOfAt(termOf(sl.High), depth-1, at)
					} else {
						xt := sl.X.Type().Underlying()
						if p, isP := xt.(*types.Pointer); isP {
							xt = p.Elem().Underlying()
						}
						if arr, isArr := xt.(*types.Array); isArr {
							hi = newLin()
							hi.c = arr.Len()
						} else {
							hi = a.linOfAt(Term{V: sl.X, Len: true}, depth-1, at)
						}
					}
					if sl.Low != nil {
						return hi.addScaled(a.linOfAt(termOf(sl.Low), depth-1, at), -1)
					}
					return hi
				}
			}
		}
		// len(append(x, y...)) = len(x) + len(y)
		if !t.Cap && depth > 0 {
			if ac, ok := stripIface(a.w.resolveLoad(t.V)).(*ssa.Call); ok {
				if b, isB := ac.Call.Value.(*ssa.Builtin); isB && b.Name() == "append" && len(ac.Call.Args) == 2 {
					if _, isSl := ac.Call.Args[1].Type().Underlying().(*types.Slice); isSl {
						return a.linOfAt(Term{V: ac.Call.Args[0], Len: true}, depth-1, at).addScaled(a.linOfAt(Term{V: ac.Call.Args[1], Len: true}, depth-1, at), 1)
					}
				}
				// len(h.Sum(b)) = len(b) + digest size (HMAC-SHA256 / HMAC-SHA1)
				if d := hmacSumDigest(ac); d > 0 {
					r := newLin()
					r.c = d
					if isNilConst(ac.Call.Args[0]) {
						return r
					}
					return r.addScaled(a.linOfAt(Term{V: ac.Call.Args[0], Len: true}, depth-1, at), 1)
				}
				// len(slices.Concat(a, b, …)) = len(a) + len(b) + …; len(Clone(x)) = len(x)
				switch stdCallee(&ac.Call) {
				case "slices.Concat":
					if len(ac.Call.Args) == 1 {
						if els := variadicElemsOrdered(ac.Call.Args[0]); els != nil {
							r := newLin()
							for _, e := range els {
								r = r.addScaled(a.linOfAt(Term{V: e, Len: true}, depth-1, at), 1)
							}
							return r
						}
					}
				case "bytes.Clone", "slices.Clone":
					if len(ac.Call.Args) == 1 {
						return a.linOfAt(Term{V: ac.Call.Args[0], Len: true}, depth-1, at)
					}
				case "slices.Grow": // same length, more capacity
					if len(ac.Call.Args) == 2 {
						return a.linOfAt(Term{V: ac.Call.Args[0], Len: true}, depth-1, at)
					}
				}
				// a module helper whose result length equals one of its arguments
				if h := ac.Call.StaticCallee(); h != nil && a.w.IsMod[h] {
					if cd, ok := a.lenPost(h, 0); ok {
						if j := paramIndex(cd.p); j >= 0 && j < len(ac.Call.Args) {
							return a.linOfAt(Term{V: ac.Call.Args[j], Len: cd.len}, depth-1, at)
						}
					}
				}
			}
		}
		return a.linAtom(t)
	}
	v := stripIntConv(t.V)
	if k, ok := constInt(v); ok {
		r := newLin()
		r.c = k
		return r
	}
	if tt := termOf(v); tt.Len {
		return a.linOfAt(tt, depth, at)
	}
	if depth <= 0 {
		return a.linAtom(Term{V: v})
	}
	if bo, ok := v.(*ssa.BinOp); ok && isIntType(bo.Type()) {
		if b, isB := bo.Type().Underlying().(*types.Basic); sizedInt(bo.Type()) || (isB && b.Info()&types.IsUnsigned != 0) {
			if at == nil || !a.zRange(bo, bo.Type(), at).within(typeRange(bo.Type())) {
				return a.linAtom(Term{V: v})
			}
		}
		switch bo.Op {
		case token.ADD:
			return a.linOfAt(termOf(bo.X), depth-1, at).addScaled(a.linOfAt(termOf(bo.Y), depth-1, at), 1)
		case token.SUB:
			return a.linOfAt(termOf(bo.X), depth-1, at).addScaled(a.linOfAt(termOf(bo.Y), depth-1, at), -1)
		case token.MUL:
			if k, isK := constInt(bo.Y); isK && k > -1024 && k < 1024 {
				return newLin().addScaled(a.linOfAt(termOf(bo.X), depth-1, at), k)
			}
			if k, isK := constInt(bo.X); isK && k > -1024 && k < 1024 {
				return newLin().addScaled(a.linOfAt(termOf(bo.Y), depth-1, at), k)
			}
		}
	}
	// a pure expression helper (nonceLen() = 4 + s.hmacLen): its body over this call's
	// arguments; reads of fields that are only ever written while their object is being
	// constructed denote one value wherever they are made
	if call, ok := v.(*ssa.Call); ok && isIntType(call.Type()) {
		if h := call.Call.StaticCallee(); h != nil && a.w.IsMod[h] {
			if rv := a.w.pureExprResult(h); rv != nil {
				tv := a.w.translate(rv, h, call)
				if _, isV := tv.(*virtVal); !isV || a.w.immutableFieldLoad(under(tv)) {
					return a.linOfAt(termOf(tv), depth-1, at)
				}
				if vv, isV := tv.(*virtVal); isV {
					_ = vv
				}
			}
		}
	}
	if bo, ok := v.(*ssa.BinOp); ok && a.w.isSynthetic(bo) && isIntType(bo.Type()) && !sizedInt(bo.Type()) {
		// synthetic arithmetic from a translated helper body (plain int): decompose
		switch bo.Op {
		case token.ADD:
			return a.linOfAt(termOf(bo.X), depth-1, at).addScaled(a.linOfAt(termOf(bo.Y), depth-1, at), 1)
		case token.SUB:
			return a.linOfAt(termOf(bo.X), depth-1, at).addScaled(a.linOfAt(termOf(bo.Y), depth-1, at), -1)
		}
	}
	// a value loaded from a private single-store local is that value
	if r := a.w.resolveLoad(v); r != v {
		return a.linOfAt(termOf(r), depth-1, at)
	}
	return a.linAtom(Term{V: v})
}

// linRange: interval of a linear form at a point (saturating at ±inf).
func (a *absint) linRange(l linForm, at ssa.Instruction) (ival, bool) {
	r := ival{l.c, l.c}
	var keys []string
	for k := range l.coef {
		keys = append(keys, k)
	}
	sort.Strings(keys)
	for _, k := range keys {
		ar := a.rangeOfTerm(l.atoms[k], at, 2)
		c := l.coef[k]
		if c < -1024 || c > 1024 {
			return ival{}, false
		}
		scale := func(v int64) int64 {
			if v >= inf/2048 {
				return inf
			}
			if v <= -inf/2048 {
				return -inf
			}
			return c * v
		}
		lo, hi := scale(ar.lo), scale(ar.hi)
		if c < 0 {
			lo, hi = scale(ar.hi), scale(ar.lo)
			if ar.hi >= inf/2048 {
				lo = -inf
			}
			if ar.lo <= -inf/2048 {
				hi = inf
			}
		}
		r = ival{sadd(r.lo, lo), sadd(r.hi, hi)}
	}
	return r, true
}

func (a *absint) linSmall(l linForm, at ssa.Instruction) bool {
	for k := range l.coef {
		t := l.atoms[k]
		if t.Len {
			continue // a length: 0 ≤ len ≤ maxInt, sums of a few of them are compared, not wrapped
		}
		ar := a.rangeOfTerm(t, at, 2)
		if ar.lo < -(1 << 30) {
			return false
		}
		if ar.hi > 1<<30 {
			// a unit-step loop counter starting small cannot wrap before it exceeds every length
			if dir, _ := a.monotone(stripIntConv(t.V)); dir == 1 {
				continue
			}
			return false
		}
	}
	return true
}

// proveLinearOff: x + k ≤ y at the program point (k any constant).
func (a *absint) proveLinearOff(x, y Term, at ssa.Instruction, k int64) (bool, string) {
	return a.proveLinear(x, y, at, k)
}

// proveLinear: y - x ≥ need (need = 1 for x < y, 0 for x ≤ y).
func (a *absint) proveLinear(x, y Term, at ssa.Instruction, need int64) (bool, string) {
	if a.linBusy {
		return false, ""
	}
	a.linBusy = true
	defer func() { a.linBusy = false }()
	lx, ly := a.linOfAt(x, 10, at), a.linOfAt(y, 10, at)
	if !lx.ok || !ly.ok {
		return false, ""
	}
	d := ly.addScaled(lx, -1)
	if os.Getenv("TURNCHECK_LINDEBUG") != "" {
		fmt.Fprintf(os.Stderr, "LIN %s < %s: x=%v y=%v d=%v small=%v/%v\n", a.termKey(x), a.termKey(y), lx.coef, ly.coef, d.coef, a.linSmall(lx, at), a.linSmall(ly, at))
		for _, f := range a.tfactsAt(at) {
			fmt.Fprintf(os.Stderr, "   fact %s %s %s %v\n", a.termKey(f.X), f.Op, a.termKey(f.Y), f.Truth)
		}
	}
	// The machine value of x (a ring expression over its atoms) equals its ℤ-value once that
	// is shown to lie in a representable range, so x and y themselves need no smallness; the
	// FACTS are machine comparisons of possibly composite terms, those must not have wrapped.
	if !d.ok {
		return false, ""
	}
	if r, ok := a.linRange(d, at); ok && r.lo >= need {
		return true, fmt.Sprintf("linear: (y - x) ∈ %s", r)
	}
	// inequalities that come with the atoms themselves: a rounding helper's result lies in
	// [arg, arg+k-1] (roundup.go); cap(slices.Grow(s, n)) ≥ len(s) + n
	exs := a.atomInequalities(at, lx, ly)
	for _, ex := range exs {
		rem := d.addScaled(ex.g, -1)
		if !rem.ok {
			continue
		}
		if r, ok := a.linRange(rem, at); ok && r.lo+ex.slack >= need {
			return true, fmt.Sprintf("linear: by %s, remainder ∈ %s", ex.why, r)
		}
		// ... together with one more of them
		for _, ex2 := range exs {
			rem2 := rem.addScaled(ex2.g, -1)
			if !rem2.ok {
				continue
			}
			if r, ok := a.linRange(rem2, at); ok && r.lo+ex.slack+ex2.slack >= need {
				return true, fmt.Sprintf("linear: by %s and %s, remainder ∈ %s", ex.why, ex2.why, r)
			}
		}
	}
	for _, f := range a.tfactsAt(at) {
		var lo, hi Term
		slack := int64(0)
		switch {
		case f.Op == "<" && f.Truth:
			lo, hi, slack = f.X, f.Y, 1
		case f.Op == "<" && !f.Truth:
			lo, hi, slack = f.Y, f.X, 0
		case f.Op == "==" && f.Truth:
			lo, hi, slack = f.X, f.Y, 0
		default:
			continue
		}
		for pass := 0; pass < 2; pass++ {
			if pass == 1 {
				if f.Op != "==" {
					break
				}
				lo, hi = hi, lo
			}
			g := a.linOfAt(hi, 10, at).addScaled(a.linOfAt(lo, 10, at), -1) // g ≥ slack
			if !g.ok || len(g.coef) == 0 || !a.linSmall(g, at) {
				continue
			}
			rem := d.addScaled(g, -1) // d = g + rem  ≥ slack + rem
			if !rem.ok {
				continue
			}
			if r, ok := a.linRange(rem, at); ok && r.lo+slack >= need {
				return true, fmt.Sprintf("linear: by fact %s %s %s, remainder ∈ %s", a.termKey(lo), map[int64]string{1: "<", 0: "≤"}[slack], a.termKey(hi), r)
			}
		}
	}
	return false, ""
}

type atomIneq struct {
	g     linForm // g ≥ slack
	slack int64
	why   string
}

// atomInequalities: what is known of the atoms of the given forms by what they are.
func (a *absint) atomInequalities(at ssa.Instruction, forms ...linForm) []atomIneq {
	var out []atomIneq
	seen := map[string]bool{}
	for _, f := range forms {
		var keys []string
		for k := range f.atoms {
			keys = append(keys, k)
		}
		sort.Strings(keys)
		for _, k := range keys {
			if seen[k] {
				continue
			}
			seen[k] = true
			t := f.atoms[k]
			if !t.Len {
				call, ok := stripIntConv(t.V).(*ssa.Call)
				if !ok || len(call.Call.Args) != 1 {
					continue
				}
				h := call.Call.StaticCallee()
				if h == nil || !a.w.IsMod[h] {
					continue
				}
				kk, isR := a.w.roundUpFn(h)
				if !isR || a.rangeAt(call.Call.Args[0], call, 2).lo < 0 {
					continue
				}
				arg := a.linOfAt(termOf(call.Call.Args[0]), 8, at)
				self := a.linAtom(t)
				out = append(out,
					atomIneq{g: self.addScaled(arg, -1), slack: 0, why: fname(h) + " rounds up: result ≥ argument"},
					atomIneq{g: arg.addScaled(self, -1), slack: -(kk - 1), why: fmt.Sprintf("%s rounds up: result ≤ argument + %d", fname(h), kk-1)})
				continue
			}
			if t.Cap {
				if gc, ok := stripIface(a.w.resolveLoad(t.V)).(*ssa.Call); ok && stdCallee(&gc.Call) == "slices.Grow" && len(gc.Call.Args) == 2 {
					g := a.linAtom(t).addScaled(a.linOfAt(Term{V: gc.Call.Args[0], Len: true}, 8, at), -1).addScaled(a.linOfAt(termOf(gc.Call.Args[1]), 8, at), -1)
					out = append(out, atomIneq{g: g, slack: 0, why: "cap(slices.Grow(s, n)) ≥ len(s) + n"})
				}
			}
		}
	}
	return out
}
