package main

import (
	"fmt"
	"go/types"
	"os"
	"strings"

	"golang.org/x/tools/go/ssa"
)

func init() {
	register(&propDef{
		ID:        "C19",
		Title:     "Responses are correlated, truthful and idempotent under retransmission",
		Technique: "value-identity (provenance) checks on every response-building call site in package server, sink propagation through the send helpers, dominance on the retransmission path",
		Explanation: "C19.1 every buildMsg call in package server receives the TransactionID of the request message in hand (the handler's stunMsg parameter, through closures too; in handleTURNPacket the message just decoded from req.Buff and passed to the handler); " +
			"C19.2 every buildAndSend/buildAndSendErr call writes on req.Conn to req.SrcAddr of the same req (helpers forwarding their own parameters are discharged by propagation to their callers; buildAndSend itself writes msg.Raw on conn to dst); " +
			"C19.3 the method of every response type equals the method the handler is dispatched for (or the request message's own method in the dispatcher); " +
			"C19.4 the mapped address in Binding/Allocate responses is AddrIPPort(req.SrcAddr), the relayed address is AddrIPPort(alloc.RelayAddr) of the allocation just created, the LIFETIME is the duration handed to CreateAllocation; " +
			"C19.5 SetResponseCache stores the request's transaction id and the attribute slice that is sent; on the existing-allocation path success is sent only on the id==TransactionID edge — built from all the cached attributes, in order, followed by the integrity attribute, however that list is put together — otherwise 437, and no state effect lies on either path; " +
			"C19.6 (=C04.3) the fingerprint under which the request's allocation (and its cached answer) is looked up is injective in the 5-tuple.; " +
			"C19.7 every response sent by package server is assembled by buildMsg (transaction id first), never by hand; " +
			"C19.8 (=C15.2/C06.5r) the teardown of an allocation stops its lifetime timer (and releases everything else) on every path, so that no expiry left over from an earlier allocation of a 5-tuple ends a later one before the LIFETIME it was told. C19.9 the QuotaHandler is consulted only after the 5-tuple lookup; C19.10 (=C20.4) SO_REUSEPORT only on the TCP paths. C19.11 (=C15.7) arm → publish → callback. C19.12 Allocation.RelayAddr depends on result #1 of the generator call and on no other address source.",
		NotCovered: "reachability of the advertised relayed address from the network; what the relay generator returns; exactly-once delivery of a response.",
		Run:        runC19,
	})
}

func runC19(c *Ctx) {
	w := c.W
	serverPath := w.tpkg("server").Path()
	buildMsg := w.Func("server", "", "buildMsg")
	bas := w.Func("server", "", "buildAndSend")
	base := w.Func("server", "", "buildAndSendErr")
	newType := w.Func("stun", "", "NewType")
	msgT := w.Named("stun", "Message")

	// root handler of a function: outermost enclosing function
	rootOf := func(fn *ssa.Function) *ssa.Function {
		for fn.Parent() != nil {
			fn = fn.Parent()
		}
		return fn
	}
	msgParam := func(fn *ssa.Function) *ssa.Parameter {
		for _, p := range fn.Params {
			if isPtrToNamed(p.Type(), msgT) {
				return p
			}
		}
		return nil
	}

	// ---- C19.1
	c.Rule("C19.1", "every buildMsg call in package server passes the TransactionID field of the request message in hand", 8)
	c.Rule("C19.3", "the stun.NewType(method, class) passed to buildMsg uses the handler's dispatch method (a constant equal to the method getMessageHandler dispatches this handler for), the callingMethod parameter in authenticateRequest (whose callers are checked by C03.2), or the request message's own method in the dispatcher", 8)
	dispatch := map[*ssa.Function]int64{}
	for _, e := range w.dispatchTable() {
		dispatch[e.handler] = e.method
	}
	// a buildMsg call made by a forwarding helper (sendSuccess(req, id, attrs)) is judged at the
	// helper's call sites, with the helper's parameters replaced by the arguments there
	// the request message a function works on: its *stun.Message parameter, or — in the
	// dispatcher — the message handed to the handler (dynamic call with 2 args)
	requestOf := func(root *ssa.Function) ssa.Value {
		if mp := msgParam(root); mp != nil {
			return mp
		}
		var reqMsg ssa.Value
		w.eachInstrDeep(root, func(in ssa.Instruction) {
			if call, ok := in.(*ssa.Call); ok && call.Call.StaticCallee() == nil && !call.Call.IsInvoke() && len(call.Call.Args) == 2 && isPtrToNamed(call.Call.Args[1].Type(), msgT) {
				reqMsg = w.resolveLoad(call.Call.Args[1])
			}
		})
		return reqMsg
	}
	// a helper that builds a response for the handlers (errorResponse(stunMsg, method, code)):
	// every call of it is made from a dispatched handler (or from another such helper): it is
	// judged at those handlers, not as a request-handling function of its own
	var liftable func(fn *ssa.Function, d int) bool
	liftable = func(fn *ssa.Function, d int) bool {
		if d > 3 || fn.Parent() != nil || fn.Object() == nil || fn.Object().Exported() || w.fnUsedAsValue()[fn] {
			return false
		}
		sites := w.callsTo(fn)
		if len(sites) == 0 {
			return false
		}
		for _, cs := range sites {
			r := rootOf(cs.Parent())
			if _, has := dispatch[r]; has {
				continue
			}
			if !liftable(cs.Parent(), d+1) {
				return false
			}
		}
		return true
	}
	stopLift := func(fn *ssa.Function) bool {
		if _, has := dispatch[rootOf(fn)]; has {
			return true
		}
		if requestOf(rootOf(fn)) != nil {
			return !liftable(fn, 0)
		}
		return false
	}
	for _, lc := range w.liftCalls(buildMsg, stopLift, 5) {
		fn := lc.fn
		if fnPkgPath(fn) != serverPath {
			continue
		}
		root := rootOf(fn)
		pos := w.instrPos(lc.at)
		tid := lc.args[0]
		tb, tf, isLoad := fieldLoad(tid)
		c.Anchor("C19.1", fname(root))
		reqMsg := requestOf(root)
		switch {
		case reqMsg == nil:
			c.Undecided("C19.1", fname(fn), "buildMsg id", pos, "cannot identify the request message of "+fname(root))
		case (isLoad && tf.Name() == "TransactionID" && w.sameKey(tb, reqMsg)) || w.key(tid) == "*@"+w.key(reqMsg)+".TransactionID":
			c.OK("C19.1", fname(fn), "buildMsg id", pos, "TransactionID of "+w.key(reqMsg))
		default:
			c.Bad("C19.1", fname(fn), "buildMsg id", pos, "response is built with transaction id "+w.key(tid)+", not the TransactionID of the request "+w.key(reqMsg))
		}
		// ---- C19.3 method
		c.Anchor("C19.3", fname(root))
		mt := lc.args[1]
		nt, _ := callOf(mt)
		if nt == nil || nt.Call.StaticCallee() != newType {
			// a predeclared message type (stun.BindingSuccess): compare its method statically
			if g := globalLoad(mt); g != nil && g.Name() == "BindingSuccess" && dispatch[root] == stunConst(w, "MethodBinding") {
				c.Triv("C19.3", fname(fn), "buildMsg type", pos, "stun.BindingSuccess in the Binding handler")
			} else {
				c.Undecided("C19.3", fname(fn), "buildMsg type", pos, "message type "+w.desc(mt)+" is not stun.NewType(method, class)")
			}
			continue
		}
		method := nt.Call.Args[0]
		if k, ok := constInt(method); ok {
			if dm, has := dispatch[root]; has && dm == k {
				c.OK("C19.3", fname(fn), "buildMsg type", pos, fmt.Sprintf("method constant 0x%03x equals the dispatch method of %s", k, fname(root)))
			} else if has {
				c.Bad("C19.3", fname(fn), "buildMsg type", pos, fmt.Sprintf("response method 0x%03x differs from the method 0x%03x this handler is dispatched for", k, dm))
			} else {
				c.Undecided("C19.3", fname(fn), "buildMsg type", pos, "constant method in a function that is not a dispatched handler")
			}
			continue
		}
		mp, mpOK := w.valueRootParam(method)
		for i := 0; i < 3 && mpOK && mp.Parent() != root; i++ {
			// handed on unchanged by a helper that is always given the same value
			a, has := argOfParam(mp)
			if !has {
				break
			}
			mp, mpOK = w.valueRootParam(a)
		}
		if mpOK && mp.Name() == "callingMethod" && (mp.Parent() == root || (len(mp.Parent().Params) > 0 && strings.HasSuffix(mp.Parent().Params[0].Type().String(), "server.Request") && w.soleRequestRoot(fn, func(r *ssa.Function) bool { return r == mp.Parent() }) == mp.Parent())) {
			c.OK("C19.3", fname(fn), "buildMsg type", pos, "the callingMethod parameter (callers pass their dispatch method, C03.2)")
			continue
		}
		if p, ok := w.valueRootParam(method); ok && p.Parent() == root && p.Name() == "callingMethod" {
			c.OK("C19.3", fname(fn), "buildMsg type", pos, "the callingMethod parameter (callers pass their dispatch method, C03.2)")
			continue
		}
		if b, f, ok := fieldLoad(method); ok && f.Name() == "Method" && reqMsg != nil {
			if b2, f2, ok2 := fieldLoadAddr(b); ok2 && f2.Name() == "Type" && w.sameKey(b2, reqMsg) {
				c.OK("C19.3", fname(fn), "buildMsg type", pos, "the request message's own Type.Method")
				continue
			}
		}
		c.Bad("C19.3", fname(fn), "buildMsg type", pos, "response method "+w.key(method)+" is neither the dispatch method nor the request's method")
	}

	// ---- C19.2
	c.Rule("C19.2", "every buildAndSend / buildAndSendErr call passes req.Conn and req.SrcAddr of the request in hand; helper functions that forward their own (conn, dst) parameters propagate the obligation to their callers; buildAndSend writes the built message on conn to dst", 9)
	var checkSend func(cs ssa.CallInstruction, depth int)
	checkSend = func(cs ssa.CallInstruction, depth int) {
		fn := cs.Parent()
		root := rootOf(fn)
		pos := w.instrPos(cs)
		args := cs.Common().Args
		isReq := func(r *ssa.Function) bool {
			return r != nil && len(r.Params) > 0 && strings.HasSuffix(r.Params[0].Type().String(), "server.Request")
		}
		if !isReq(root) {
			// a stage of a handler written as a method of its per-request context object
			if r2 := w.bodyRoot(fn); isReq(r2) {
				root = r2
			} else if r3 := w.soleRequestRoot(fn, isReq); r3 != nil {
				root = r3
			}
		}
		if len(root.Params) > 0 && strings.HasSuffix(root.Params[0].Type().String(), "server.Request") {
			c.Anchor("C19.2", fname(root))
			rk := w.key(root.Params[0])
			if w.key(args[0]) == rk+".Conn" && w.key(args[1]) == rk+".SrcAddr" {
				c.OK("C19.2", fname(fn), "send to", pos, "(req.Conn, req.SrcAddr)")
				return
			}
			// a stage with several call sites inside the handler: the arguments expressed at
			// each chain of calls from the handler
			nUp, okUp := 0, true
			for _, lc := range w.liftCalls(cs.Common().StaticCallee(), isReq, 5) {
				if lc.orig != cs {
					continue
				}
				nUp++
				if !isReq(lc.fn) {
					okUp = false
					continue
				}
				rk2 := w.key(lc.fn.Params[0])
				if w.key(lc.args[0]) != rk2+".Conn" || w.key(lc.args[1]) != rk2+".SrcAddr" {
					okUp = false
				}
			}
			if nUp > 0 && okUp {
				c.OK("C19.2", fname(fn), "send to", pos, "(req.Conn, req.SrcAddr) at every call chain from the handler")
			} else {
				c.Bad("C19.2", fname(fn), "send to", pos, "response is sent on "+w.key(args[0])+" to "+w.key(args[1])+", not on req.Conn to req.SrcAddr")
			}
			return
		}
		// forwarding helper
		p0, ok0 := stripIface(args[0]).(*ssa.Parameter)
		p1, ok1 := stripIface(args[1]).(*ssa.Parameter)
		if ok0 && ok1 && p0.Parent() == fn && p1.Parent() == fn && depth < 3 {
			c.Triv("C19.2", fname(fn), "send to", pos, "forwards its own (conn, dst) parameters: discharged at its callers")
			return
		}
		// a stage shared by several handlers (a method of a per-request context object called
		// from more than one of them): judged at every handler it is reached from, with the
		// arguments expressed there
		{
			var target *ssa.Function = cs.Common().StaticCallee()
			nUp, okUp := 0, true
			why := ""
			for _, lc := range w.liftCalls(target, isReq, 5) {
				if lc.orig != cs {
					continue
				}
				nUp++
				if !isReq(lc.fn) {
					okUp = false
					why = "reached from " + fname(lc.fn) + ", which is not a request handler"
					continue
				}
				rk := w.key(lc.fn.Params[0])
				if w.key(lc.args[0]) != rk+".Conn" || w.key(lc.args[1]) != rk+".SrcAddr" {
					okUp = false
					why = "in " + fname(lc.fn) + " the response goes on " + w.key(lc.args[0]) + " to " + w.key(lc.args[1])
				}
			}
			if nUp > 0 && okUp {
				c.Anchor("C19.2", fname(fn))
				c.OK("C19.2", fname(fn), "send to", pos, fmt.Sprintf("(req.Conn, req.SrcAddr) of the request in hand at each of the %d handler call chains that reach this stage", nUp))
				return
			}
			if why != "" {
				c.Bad("C19.2", fname(fn), "send to", pos, "response destination is not the request's (Conn, SrcAddr): "+why)
				return
			}
		}
		c.Bad("C19.2", fname(fn), "send to", pos, "response destination "+w.key(args[0])+", "+w.key(args[1])+" is neither the request's (Conn, SrcAddr) nor forwarded parameters")
	}
	for _, target := range []*ssa.Function{bas, base} {
		for _, cs := range w.callsTo(target) {
			if fnPkgPath(cs.Parent()) == serverPath {
				checkSend(cs, 0)
			}
		}
	}
	{
		c.Anchor("C19.2", "buildAndSend body")
		ok := false
		w.eachInstr(bas, func(in ssa.Instruction) {
			call, isC := in.(*ssa.Call)
			if !isC || !call.Call.IsInvoke() || call.Call.Method.Name() != "WriteTo" {
				return
			}
			bc, bi := callOf(rawBase(call.Call.Args[0]))
			ok = w.sameKey(call.Call.Value, bas.Params[0]) && w.sameKey(call.Call.Args[1], bas.Params[1]) && bc != nil && bi == 0 && bc.Call.StaticCallee() != nil && bc.Call.StaticCallee().Name() == "Build"
		})
		if ok {
			c.OK("C19.2", fname(bas), "WriteTo", w.pos(bas.Pos()), "conn.WriteTo(stun.Build(attrs...).Raw, dst) on its own parameters")
		} else {
			c.Bad("C19.2", fname(bas), "WriteTo", w.pos(bas.Pos()), "buildAndSend does not write the message it built on its conn parameter to its dst parameter")
		}
	}

	ruleTruthfulAddresses(c, "C19.4")
	ruleRetransmission(c, "C19.5")
	// the allocation a request (and its cached answer) is matched to is found by the
	// fingerprint of the request's 5-tuple: two different tuples must not share one
	// (shared with C04.3)
	ruleFingerprintDeps(c, "C19.6")
	ruleResponsesBuiltByBuildMsg(c, "C19.7")
	// the lifetime reported stays in force only if nothing left over from an earlier allocation of
	// the 5-tuple can end this one: Close stops the lifetime timer on every path (the expiry
	// deletes by 5-tuple)
	ruleReleaseCoverage(c, "C19.8")
	ruleAllocateLookupFirst(c, "C19.9")
	ruleReusePortSites(c, "C19.10")
	ruleRelayAddrFromGenerator(c, "C19.12")
	ruleArmThenPublish(c, "C19.11")
}

func rawBase(v ssa.Value) ssa.Value {
	if b, f, ok := fieldLoad(v); ok && f.Name() == "Raw" {
		return b
	}
	return v
}

func globalLoad(v ssa.Value) *ssa.Global {
	v = stripIface(under(stripIface(v)))
	if u, ok := v.(*ssa.UnOp); ok {
		if g, ok := u.X.(*ssa.Global); ok {
			return g
		}
	}
	return nil
}

// fieldLoadAddr decomposes an address &X.f (or a load thereof) into X and f.
func fieldLoadAddr(v ssa.Value) (ssa.Value, *types.Var, bool) {
	v = under(v)
	if fa, ok := v.(*ssa.FieldAddr); ok {
		return fa.X, fieldOf(fa), true
	}
	return fieldLoad(v)
}

// valueRootParam: v is (a load of the spill slot of, or a free variable bound to) a parameter.
func (w *World) valueRootParam(v ssa.Value) (*ssa.Parameter, bool) {
	for i := 0; i < 10; i++ {
		v = w.resolveLoad(stripIface(v))
		switch x := v.(type) {
		case *ssa.Parameter:
			return x, true
		case *ssa.FreeVar:
			if b := w.binding(x); b != nil {
				v = b
				continue
			}
		case *ssa.UnOp:
			// load through a captured pointer to the spill slot
			if fv, ok := x.X.(*ssa.FreeVar); ok {
				if b := w.binding(fv); b != nil {
					if al, ok := b.(*ssa.Alloc); ok {
						if ss := w.stores[w.locKey(al)]; len(ss) == 1 {
							v = ss[0].Val
							continue
						}
					}
				}
			}
			if al, ok := x.X.(*ssa.Alloc); ok {
				if ss := w.stores[w.locKey(al)]; len(ss) == 1 {
					v = ss[0].Val
					continue
				}
			}
		}
		return nil, false
	}
	return nil, false
}

// ---------------------------------------------------------------------------------

func ruleTruthfulAddresses(c *Ctx, rule string) {
	w := c.W
	c.Rule(rule, "truthful attributes: XOR-MAPPED-ADDRESS literals take IP/Port from results #0/#1 of ipnet.AddrIPPort(req.SrcAddr); the XOR-RELAYED-ADDRESS literal from AddrIPPort(alloc.RelayAddr) with alloc the result of the CreateAllocation call of this request; the LIFETIME literal's Duration is the duration argument of that CreateAllocation call (Allocate) resp. the argument of a.Refresh (Refresh)", 4)
	addrIPPort := w.Func("ipnet", "", "AddrIPPort")
	create := w.Func("allocation", "Manager", "CreateAllocation")
	refresh := w.Func("allocation", "Allocation", "Refresh")
	serverPath := w.tpkg("server").Path()
	for _, fn := range w.ModFns {
		if fnPkgPath(fn) != serverPath {
			continue
		}
		root := w.bodyRoot(fn)
		w.eachInstr(fn, func(in ssa.Instruction) {
			al, ok := in.(*ssa.Alloc)
			if !ok {
				return
			}
			n := namedOf(al.Type())
			if n == nil {
				return
			}
			lit := w.literalOf(al)
			pos := w.instrPos(in)
			switch nm(n.Obj()) {
			case "XORMappedAddress":
				if len(lit.fields) == 0 {
					return
				}
				c.Anchor(rule, fname(fn)+" mapped")
				ic, ii := callOf(lit.fields["IP"])
				pc, pi := callOf(lit.fields["Port"])
				ok := ic != nil && ic == pc && ii == 0 && pi == 1 && ic.Call.StaticCallee() == addrIPPort && w.key(ic.Call.Args[0]) == w.key(root.Params[0])+".SrcAddr"
				// ... or of a module helper over req.SrcAddr that answers with AddrIPPort's
				// results for every address AddrIPPort accepts (what it does for the others —
				// address types of wrapped listeners — is outside the statement)
				if !ok && ic != nil && ic == pc && ii == 0 && pi == 1 {
					if h := ic.Call.StaticCallee(); h != nil && w.IsMod[h] && len(h.Blocks) > 0 && len(h.Params) == len(ic.Call.Args) {
						var ac *ssa.Call
						w.eachInstr(h, func(i2 ssa.Instruction) {
							if c2, isC := i2.(*ssa.Call); isC && c2.Call.StaticCallee() == addrIPPort {
								if p := rawParamOf(c2.Call.Args[0], h); p != nil && w.key(ic.Call.Args[paramIndex(p)]) == w.key(root.Params[0])+".SrcAddr" {
									ac = c2
								}
							}
						})
						if ac != nil && ac.Block() == h.Blocks[0] {
							all := true
							for _, r := range returnsOf(h) {
								e0, i0 := callOf(w.resolveLoad(r.Results[0]))
								e1, i1 := callOf(w.resolveLoad(r.Results[1]))
								if e0 == ac && e1 == ac && i0 == 0 && i1 == 1 {
									continue
								}
								failed := false
								for _, f := range w.factsAt(r) {
									if v, isNil, isNF := nilFact(f); isNF && !isNil {
										if fc, fi := callOf(w.resolveLoad(v)); fc == ac && fi == 2 {
											failed = true
										}
									}
								}
								if !failed {
									all = false
								}
							}
							ok = all
						}
					}
				}
				if ok {
					c.OK(rule, fname(fn), "XOR-MAPPED-ADDRESS", pos, "IP/Port = AddrIPPort(req.SrcAddr)")
				} else {
					c.Bad(rule, fname(fn), "XOR-MAPPED-ADDRESS", pos, "mapped address is not AddrIPPort(req.SrcAddr): IP="+w.desc(lit.fields["IP"])+" Port="+w.desc(lit.fields["Port"]))
				}
			case "RelayedAddress":
				if len(lit.fields) == 0 {
					return
				}
				c.Anchor(rule, fname(fn)+" relayed")
				ic, ii := callOf(lit.fields["IP"])
				pc, pi := callOf(lit.fields["Port"])
				ok := ic != nil && ic == pc && ii == 0 && pi == 1 && ic.Call.StaticCallee() == addrIPPort
				if ok {
					b, f, isL := fieldLoad(ic.Call.Args[0])
					cc, ci := callOf(w.allocRoot(b))
					ok = isL && f.Name() == "RelayAddr" && cc != nil && ci == 0 && cc.Call.StaticCallee() == create
				}
				if ok {
					c.OK(rule, fname(fn), "XOR-RELAYED-ADDRESS", pos, "IP/Port = AddrIPPort(alloc.RelayAddr), alloc = result of this request's CreateAllocation")
				} else {
					c.Bad(rule, fname(fn), "XOR-RELAYED-ADDRESS", pos, "relayed address is not the RelayAddr of the allocation just created")
				}
			case "Lifetime":
				d := lit.fields["Duration"]
				if d == nil {
					// not a literal with a Duration: a Lifetime value obtained elsewhere. When it
					// is sent as an attribute (boxed into a stun.Setter) its Duration is not
					// known to be the timer's
					sent := false
					for _, r := range *al.Referrers() {
						if _, isMI := r.(*ssa.MakeInterface); isMI {
							sent = true
						}
					}
					zeroLit := true
					for _, r := range *al.Referrers() {
						switch x := r.(type) {
						case *ssa.Store:
							if x.Addr == ssa.Value(al) {
								zeroLit = false
							}
						case *ssa.FieldAddr, *ssa.Call:
							zeroLit = false
						}
					}
					if sent && zeroLit && len(lit.fields) == 0 && w.guardedBy(al, w.Func("allocation", "Manager", "GetAllocation"), -1, "nil", nil) != nil {
						// LIFETIME 0 on a path on which the 5-tuple holds no allocation: nothing is in
						// force, and 0 says so
						c.Anchor(rule, fname(fn)+" lifetime")
						c.OK(rule, fname(fn), "LIFETIME", pos, "a zero LIFETIME under GetAllocation(...) == nil: the 5-tuple holds no allocation, the lifetime in force is none")
						return
					}
					if sent {
						c.Anchor(rule, fname(fn)+" lifetime")
						c.Bad(rule, fname(fn), "LIFETIME", pos, "the LIFETIME attribute sent is a value whose Duration is not set from the duration that arms/resets the allocation timer")
					}
					return
				}
				{
					// a Lifetime that is never boxed into an attribute (a decode target given an
					// explicit zero) reports nothing
					sent := false
					for _, r := range *al.Referrers() {
						switch x := r.(type) {
						case *ssa.MakeInterface, *ssa.Return:
							sent = true
						case *ssa.Store:
							if x.Val == ssa.Value(al) {
								sent = true
							}
						case *ssa.UnOp:
							sent = true // copied as a value: may be sent from the copy
						}
					}
					if !sent {
						return
					}
				}
				c.Anchor(rule, fname(fn)+" lifetime")
				// the same value must be the lifetime argument of CreateAllocation / Refresh
				found := ""
				for _, f2 := range w.helpersOf(root) {
					w.eachInstr(f2, func(in2 ssa.Instruction) {
						call, ok := in2.(*ssa.Call)
						if !ok {
							return
						}
						switch call.Call.StaticCallee() {
						case create:
							if w.sameKey(call.Call.Args[5], d) {
								found = "the lifetime argument of CreateAllocation"
							}
						case refresh:
							if w.sameKey(call.Call.Args[1], d) {
								found = "the argument of a.Refresh"
							}
						}
					})
				}
				if found != "" {
					c.OK(rule, fname(fn), "LIFETIME", pos, "Duration is "+found)
				} else {
					c.Bad(rule, fname(fn), "LIFETIME", pos, "the LIFETIME reported ("+w.key(d)+") is not the value that arms/resets the allocation timer")
				}
			}
		})
	}
}

func ruleRetransmission(c *Ctx, rule string) {
	w := c.W
	c.Rule(rule, "retransmission: SetResponseCache(stunMsg.TransactionID, attrs) stores the attribute slice the success response is built from, on every path to the success send; on the GetAllocation(ft)!=nil path a success is sent only on the edge cachedID == stunMsg.TransactionID, the other edge answers 437 (CodeAllocMismatch), and neither path contains a state effect", 3)
	h := w.Func("server", "", "handleAllocateRequest")
	setCache := w.Func("allocation", "Allocation", "SetResponseCache")
	getCache := w.Func("allocation", "Allocation", "GetResponseCache")
	get := w.Func("allocation", "Manager", "GetAllocation")
	buildMsg := w.Func("server", "", "buildMsg")
	msgKey := w.key(h.Params[1])
	// the buildMsg / buildAndSend calls of the handler, including those made through
	// forwarding helpers (judged at the helper's call site in the handler, in its terms)
	inHandler := func(fn *ssa.Function) bool { return w.partOf(fn, h) }
	var builds, sends []liftedCall
	for _, lc := range w.liftCalls(buildMsg, inHandler, 3) {
		if inHandler(lc.fn) {
			builds = append(builds, lc)
		}
	}
	for _, lc := range w.liftCalls(w.Func("server", "", "buildAndSend"), inHandler, 3) {
		if inHandler(lc.fn) {
			sends = append(sends, lc)
		}
	}
	// sameID: at this instruction, is the cached id known equal (1) / unequal (-1) to the request's?
	sameID := func(in ssa.Instruction) int {
		same := 0
		for _, fct := range w.factsAt(in) {
			if fct.Op != "==" {
				continue
			}
			for _, pair := range [][2]ssa.Value{{fct.X, fct.Y}, {fct.Y, fct.X}} {
				gc, gi := callOf(pair[0])
				tb, tf, isL := fieldLoad(pair[1])
				if gc != nil && gi == 0 && gc.Call.StaticCallee() == getCache && isL && tf.Name() == "TransactionID" && w.key(tb) == msgKey {
					if fct.Truth {
						same = 1
					} else {
						same = -1
					}
				}
			}
		}
		return same
	}
	// SetResponseCache
	n := 0
	w.eachInstrDeep(h, func(in ssa.Instruction) {
		call, ok := in.(*ssa.Call)
		if !ok || call.Call.StaticCallee() != setCache {
			return
		}
		n++
		c.Anchor(rule, "SetResponseCache")
		tb, tf, isL := fieldLoad(call.Call.Args[1])
		okID := isL && tf.Name() == "TransactionID" && w.key(tb) == msgKey
		// the attrs must be the base of the append passed to the success buildMsg
		okAttrs := false
		for _, b := range builds {
			if !isSuccessType(w, b.args[1]) {
				continue
			}
			if ab := appendBase(b.args[2]); ab != nil && (w.sameKey(ab, call.Call.Args[2]) || w.key(ab) == w.key(call.Call.Args[2])) {
				okAttrs = true
			}
		}
		if okID && okAttrs {
			c.OK(rule, fname(h), "SetResponseCache", w.instrPos(in), "caches (request id, the attribute slice of the success response)")
		} else {
			c.Bad(rule, fname(h), "SetResponseCache", w.instrPos(in), fmt.Sprintf("cache does not hold the request's id (%v) with the attributes actually sent (%v): a retransmission would get a different answer", okID, okAttrs))
		}
		// must dominate the success send: every send of a success-typed message after CreateAllocation is dominated by the cache store
	})
	if n == 0 {
		c.Bad(rule, fname(h), "SetResponseCache", w.pos(h.Pos()), "the Allocate success is no longer cached: a retransmitted Allocate cannot be answered with the same success")
	} else {
		// every path from CreateAllocation success to a return passes SetResponseCache before a send of the success message
		c.Anchor(rule, "cache before send")
		bad := ""
		badRetry, nRetry := "", 0
		for _, sd := range sends {
			call := sd.at
			bm, _ := callOf(sd.args[2])
			if bm == nil || bm.Call.StaticCallee() != buildMsg || !isSuccessType(w, bm.Call.Args[1]) {
				continue
			}
			// the retransmission path (cached id == request id) re-sends the cached attributes:
			// its list is all of GetResponseCache's attributes, in order, followed by the one
			// integrity attribute — however the list is put together
			if sameID(bm) == 1 {
				nRetry++
				parts, ok := w.seqParts(bm.Call.Args[2], bm, 0)
				fromCache := false
				if ok && len(parts) == 2 && parts[0].all != nil && parts[1].elem != nil {
					if gc, gi := callOf(w.resolveLoad(parts[0].all)); gc != nil && gc.Call.StaticCallee() == getCache && gi == 1 {
						fromCache = true
					}
				}
				if !fromCache {
					badRetry = "the answer to a retransmitted Allocate at " + w.instrPos(call) + " is not built from all the cached attributes followed by the integrity attribute (" + descParts(w, parts, ok) + "): the retransmission gets a different answer than the first request"
				}
				continue
			}
			// the fresh-allocation success: a SetResponseCache must dominate it
			{
				dominated := false
				w.eachInstrDeep(h, func(in2 ssa.Instruction) {
					if c2, ok := in2.(*ssa.Call); ok && c2.Call.StaticCallee() == setCache && instrDominates(c2, call) {
						dominated = true
					}
				})
				if !dominated {
					bad = "the success response at " + w.instrPos(call) + " can be sent before/without the response cache being filled"
				}
			}
		}
		if bad == "" {
			c.OK(rule, fname(h), "cache before send", w.pos(h.Pos()), "SetResponseCache dominates the send of the fresh success response")
		} else {
			c.Bad(rule, fname(h), "cache before send", w.pos(h.Pos()), bad)
		}
		c.Anchor(rule, "retransmission reply")
		switch {
		case badRetry != "":
			c.Bad(rule, fname(h), "retransmission reply", w.pos(h.Pos()), badRetry)
		case nRetry == 0:
			c.Bad(rule, fname(h), "retransmission reply", w.pos(h.Pos()), "no success is sent on the cached id == request id edge: anchor gone")
		default:
			c.OK(rule, fname(h), "retransmission reply", w.pos(h.Pos()), "the cached attributes, whole and in order, followed by MESSAGE-INTEGRITY")
		}
	}
	// existing-allocation path
	c.Anchor(rule, "existing allocation path")
	nSucc, nMismatch := 0, 0
	bad := ""
	for _, f := range w.helpersOf(h) {
		w.eachInstr(f, func(in ssa.Instruction) {
			g := w.guardedBy(in, get, -1, "nonnil", func(g *ssa.Call) bool { ok, _ := w.requestTuple(g.Call.Args[1], h); return ok })
			if g == nil {
				return
			}
			if eff := w.effectAt(in); eff != "" {
				bad = "state effect (" + eff + ") at " + w.instrPos(in) + " on the path where an allocation already exists"
			}
		})
	}
	{
		for _, b := range builds {
			in := ssa.Instruction(b.at)
			g := w.guardedBy(in, get, -1, "nonnil", func(g *ssa.Call) bool { ok, _ := w.requestTuple(g.Call.Args[1], h); return ok })
			if g == nil {
				continue
			}
			bargs := b.args
			same := sameID(in)
			if isSuccessType(w, bargs[1]) {
				nSucc++
				if same != 1 {
					bad = "a success is built at " + w.instrPos(in) + " for an existing allocation without the cached id being equal to the request's TransactionID"
				}
			} else {
				nMismatch++
				if same != -1 {
					continue
				}
				bcall, _ := in.(*ssa.Call)
				if bcall == nil || !w.msgHasErrorCode(bcall, stunConst(w, "CodeAllocMismatch"), 0) {
					bad = "the mismatch path at " + w.instrPos(in) + " does not answer 437 (Allocation Mismatch)"
				}
			}
		}
	}
	// the other side of the same test: a new allocation is created only where the lookup of
	// this very 5-tuple found none (a weaker test — e.g. one that also looks at the user —
	// lets a second Allocate on a live 5-tuple through instead of answering 437)
	if create := w.FuncOpt("allocation", "Manager", "CreateAllocation"); create != nil {
		for _, f := range w.helpersOf(h) {
			w.eachInstr(f, func(in ssa.Instruction) {
				call, ok := in.(*ssa.Call)
				if !ok || call.Call.StaticCallee() != create {
					return
				}
				g := w.guardedBy(in, get, -1, "nil", func(g *ssa.Call) bool { ok, _ := w.requestTuple(g.Call.Args[1], h); return ok })
				if g == nil && os.Getenv("TURNCHECK_C19DEBUG") != "" {
					for _, fd := range w.factsDesc(in) {
						fmt.Fprintln(os.Stderr, "C19.5 create fact:", fd)
					}
				}
				if g == nil && bad == "" {
					bad = "CreateAllocation at " + w.instrPos(in) + " is not confined to the edge where GetAllocation(this request's 5-tuple) == nil: an Allocate on a 5-tuple that already has an allocation is not answered with 437"
				}
			})
		}
	}
	if bad == "" && nSucc >= 1 && nMismatch >= 1 {
		c.OK(rule, fname(h), "existing allocation path", w.pos(h.Pos()), "success only when cached id == request id; otherwise 437; no state effect on either path; creation only where no allocation exists")
	} else {
		if bad == "" {
			bad = fmt.Sprintf("existing-allocation path lost a branch (success builds: %d, error builds: %d)", nSucc, nMismatch)
		}
		c.Bad(rule, fname(h), "existing allocation path", w.pos(h.Pos()), bad)
	}
}

func isSuccessType(w *World, mt ssa.Value) bool {
	nt, _ := callOf(mt)
	if nt == nil || nt.Call.StaticCallee() == nil || nt.Call.StaticCallee().Name() != "NewType" {
		return false
	}
	k, ok := constInt(nt.Call.Args[1])
	return ok && k == stunConst(w, "ClassSuccessResponse")
}

// appendBase: v is append(base, ...) (possibly sliced): return base.
func appendBase(v ssa.Value) ssa.Value {
	v = stripIface(v)
	if call, ok := v.(*ssa.Call); ok {
		if b, ok := call.Call.Value.(*ssa.Builtin); ok && b.Name() == "append" {
			return call.Call.Args[0]
		}
	}
	return nil
}

func rootOfAppendBase(w *World, v ssa.Value) ssa.Value { return w.resolveLoad(v) }

func descParts(w *World, parts []seqPart, ok bool) string {
	if !ok {
		return "contents not determined"
	}
	if len(parts) == 0 {
		return "an empty list"
	}
	var ss []string
	for _, p := range parts {
		if p.all != nil {
			ss = append(ss, "all of "+w.desc(p.all))
		} else {
			ss = append(ss, w.desc(p.elem))
		}
	}
	return strings.Join(ss, " ++ ")
}

// errorCodeIs: among the variadic attributes of a buildMsg call there is an
// &stun.ErrorCodeAttribute{Code: k}.
func errorCodeIs(w *World, call *ssa.Call, k int64) bool {
	found := false
	w.eachInstr(call.Parent(), func(in ssa.Instruction) {
		al, ok := in.(*ssa.Alloc)
		if !ok {
			return
		}
		if n := namedOf(al.Type()); n == nil || n.Obj().Name() != "ErrorCodeAttribute" {
			return
		}
		lit := w.literalOf(al)
		if v, ok := constInt(lit.fields["Code"]); ok && v == k {
			// is it an element of this call's variadic slice?
			if sliceHasElem(call.Call.Args[2], al) {
				found = true
			}
		}
	})
	return found
}

// sliceHasElem: the variadic slice value was built from an array that stores elem.
func sliceHasElem(sl ssa.Value, elem ssa.Value) bool {
	s, ok := sl.(*ssa.Slice)
	if !ok {
		return false
	}
	arr, ok := s.X.(*ssa.Alloc)
	if !ok {
		return false
	}
	for _, r := range *arr.Referrers() {
		ia, ok := r.(*ssa.IndexAddr)
		if !ok {
			continue
		}
		for _, r2 := range *ia.Referrers() {
			if st, ok := r2.(*ssa.Store); ok && stripIface(st.Val) == elem {
				return true
			}
		}
	}
	return false
}

// soleRequestRoot: the one request-handling function from which every static call chain to
// the unexported helper fn starts (stages of a handler that are called from several places of
// it, and from each other); nil when there is none or more than one.
func (w *World) soleRequestRoot(fn *ssa.Function, isReq func(*ssa.Function) bool) *ssa.Function {
	var root *ssa.Function
	seen := map[*ssa.Function]bool{}
	var up func(f *ssa.Function, d int) bool
	up = func(f *ssa.Function, d int) bool {
		if isReq(f) {
			if root != nil && root != f {
				return false
			}
			root = f
			return true
		}
		if seen[f] {
			return true
		}
		seen[f] = true
		if d > 4 || f.Parent() != nil || w.fnUsedAsValue()[f] {
			return false
		}
		if obj := f.Object(); obj == nil || obj.Exported() {
			return false
		}
		node := w.CG.Nodes[f]
		if node == nil || len(node.In) == 0 {
			return false
		}
		for _, e := range node.In {
			if e.Site == nil || e.Site.Common().StaticCallee() != f || !w.IsMod[e.Caller.Func] {
				return false
			}
			if !up(e.Caller.Func, d+1) {
				return false
			}
		}
		return true
	}
	if !up(fn, 0) {
		return nil
	}
	return root
}

// msgHasErrorCode: the attribute list v (the message handed to buildAndSend / buildAndSendErr)
// is built by buildMsg with an &ErrorCodeAttribute{Code: k}: directly, or by a module helper
// every return of which builds such a message with its Code taken from an argument that is the
// constant k at this call (errorResponse(stunMsg, method, stun.CodeBadRequest)).
func (w *World) msgHasErrorCode(v ssa.Value, k int64, depth int) bool {
	buildMsg := w.Func("server", "", "buildMsg")
	bm, _ := callOf(w.resolveLoad(v))
	if bm == nil || depth > 3 {
		return false
	}
	cal := bm.Call.StaticCallee()
	if cal == buildMsg {
		return errorCodeIs(w, bm, k)
	}
	if cal == nil || !w.IsMod[cal] || len(cal.Blocks) == 0 {
		return false
	}
	rets := returnsOf(cal)
	if len(rets) == 0 {
		return false
	}
	for _, r := range rets {
		if len(r.Results) == 0 {
			return false
		}
		inner, _ := callOf(w.resolveLoad(r.Results[0]))
		if inner == nil {
			return false
		}
		if inner.Call.StaticCallee() != buildMsg {
			if !w.msgHasErrorCode(w.translate(w.resolveLoad(r.Results[0]), cal, bm), k, depth+1) {
				return false
			}
			continue
		}
		found := false
		w.eachInstr(cal, func(in ssa.Instruction) {
			al, ok := in.(*ssa.Alloc)
			if !ok {
				return
			}
			if n := namedOf(al.Type()); n == nil || n.Obj().Name() != "ErrorCodeAttribute" {
				return
			}
			if !sliceHasElem(inner.Call.Args[2], al) {
				return
			}
			lit := w.literalOf(al)
			if cv := lit.fields["Code"]; cv != nil {
				if kv, ok := constInt(w.translate(w.resolveLoad(cv), cal, bm)); ok && kv == k {
					found = true
				}
			}
		})
		if !found {
			return false
		}
	}
	return true
}

// errorCodesAt: the constant error codes the call can put into a response: the Code of the
// &ErrorCodeAttribute{…} literals among the attributes of a buildMsg call made here, or made
// inside the (unexported, module) helper called here with the Code taken from one of its
// parameters (then: the constant passed at this call). builds=false when the call builds no
// error response at all.
func (w *World) errorCodesAt(call *ssa.Call, buildMsg *ssa.Function, depth int) (codes []int64, builds bool) {
	h := call.Call.StaticCallee()
	if h == nil || depth > 3 {
		return nil, false
	}
	if h == buildMsg {
		fn := call.Parent()
		w.eachInstr(fn, func(in ssa.Instruction) {
			al, ok := in.(*ssa.Alloc)
			if !ok {
				return
			}
			if n := namedOf(al.Type()); n == nil || n.Obj().Name() != "ErrorCodeAttribute" {
				return
			}
			if !sliceHasElem(call.Call.Args[2], al) {
				return
			}
			builds = true
			if k, ok := constInt(w.resolveLoad(w.literalOf(al).fields["Code"])); ok {
				codes = append(codes, k)
			} else {
				codes = append(codes, -1)
			}
		})
		return codes, builds
	}
	if !w.IsMod[h] || len(h.Blocks) == 0 || h.Object() == nil || h.Object().Exported() {
		return nil, false
	}
	w.eachInstr(h, func(in ssa.Instruction) {
		inner, ok := in.(*ssa.Call)
		if !ok || inner.Call.StaticCallee() == nil {
			return
		}
		if inner.Call.StaticCallee() == buildMsg {
			w.eachInstr(h, func(in2 ssa.Instruction) {
				al, ok := in2.(*ssa.Alloc)
				if !ok {
					return
				}
				if n := namedOf(al.Type()); n == nil || n.Obj().Name() != "ErrorCodeAttribute" {
					return
				}
				if !sliceHasElem(inner.Call.Args[2], al) {
					return
				}
				builds = true
				cv := w.literalOf(al).fields["Code"]
				if cv == nil {
					codes = append(codes, -1)
					return
				}
				if k, ok := constInt(w.translate(w.resolveLoadLocal(cv), h, call)); ok {
					codes = append(codes, k)
				} else {
					codes = append(codes, -1)
				}
			})
		}
	})
	return codes, builds
}

// ruleResponsesBuiltByBuildMsg (C19.7): buildMsg is the one place that orders a response's
// attributes — the message with the request's transaction id first, then the type, then the
// rest — and C19.1/C19.3 judge its arguments. A response assembled by hand and handed to
// buildAndSend can put an attribute whose encoding depends on the transaction id
// (XOR-MAPPED/PEER/RELAYED-ADDRESS of an IPv6 address) before the id is set. So every message
// sent by buildAndSend / buildAndSendErr in package server must be the result of buildMsg
// (directly, or through a helper every return of which is one).
func ruleResponsesBuiltByBuildMsg(c *Ctx, rule string) {
	w := c.W
	c.Rule(rule, "who may build a response: the attribute list handed to every buildAndSend / buildAndSendErr call of package server is the result of buildMsg (directly, or of a helper all of whose returns are), which writes the transaction id before any attribute that depends on it", 6)
	buildMsg := w.Func("server", "", "buildMsg")
	bas := w.Func("server", "", "buildAndSend")
	base := w.Func("server", "", "buildAndSendErr")
	serverPath := w.tpkg("server").Path()
	var built func(v ssa.Value, d int) bool
	built = func(v ssa.Value, d int) bool {
		v = w.resolveLoad(v)
		if p, isP := v.(*ssa.Parameter); isP && d < 4 {
			// a forwarding helper: judged at its callers
			sites := w.callsTo(p.Parent())
			if len(sites) == 0 || p.Parent().Object() == nil || p.Parent().Object().Exported() {
				return false
			}
			for _, cs := range sites {
				if i := paramIndex(p); i < 0 || i >= len(cs.Common().Args) || !built(cs.Common().Args[i], d+1) {
					return false
				}
			}
			return true
		}
		if phi, isPhi := v.(*ssa.Phi); isPhi && d < 6 {
			for _, e := range phi.Edges {
				if !built(e, d+1) {
					return false
				}
			}
			return len(phi.Edges) > 0
		}
		call, _ := callOf(v)
		if call == nil || d > 6 {
			return false
		}
		// attributes appended to a message buildMsg started keep its head in front
		if b, isB := call.Call.Value.(*ssa.Builtin); isB && b.Name() == "append" && len(call.Call.Args) > 0 {
			return built(call.Call.Args[0], d+1)
		}
		h := call.Call.StaticCallee()
		if h == buildMsg {
			return true
		}
		if h == nil || !w.IsMod[h] || len(h.Blocks) == 0 {
			return false
		}
		rets := returnsOf(h)
		if len(rets) == 0 {
			return false
		}
		for _, r := range rets {
			if len(r.Results) == 0 || !built(r.Results[0], d+1) {
				return false
			}
		}
		return true
	}
	for _, target := range []*ssa.Function{bas, base} {
		idx := 2
		if target == base {
			idx = 3
		}
		for _, cs := range w.callsTo(target) {
			fn := cs.Parent()
			if fnPkgPath(fn) != serverPath || idx >= len(cs.Common().Args) {
				continue
			}
			c.Anchor(rule, fname(w.bodyRoot(fn)))
			if built(cs.Common().Args[idx], 0) {
				c.OK(rule, fname(fn), "message", w.instrPos(cs), "built by buildMsg")
			} else {
				c.Bad(rule, fname(fn), "message", w.instrPos(cs), "the response sent here is not built by buildMsg ("+w.desc(cs.Common().Args[idx])+"): nothing guarantees that the transaction id is written before the attributes whose encoding depends on it (an XOR-ed IPv6 address would be reported wrong), nor that id and type are the request's")
			}
		}
	}
}
