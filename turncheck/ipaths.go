package main

// Interprocedural path exploration (inlining explorer).
//
// The pairing rules of the client transaction layer ("every path from the insert ends waited,
// armed or deleted", "find → delete → complete with no unlock in between") are statements
// about PATHS. When the body of PerformTransaction or onRtxTimeout is split into helpers
// (sendRequest / awaitResponse / failTransaction), the paths are the same but run through
// several functions. explorePaths enumerates the paths of a root function with the static
// calls the rule is interested in inlined: a helper is entered at its call, and each of its
// returns continues the caller after the call with
//   - the helper's parameters bound to the (resolved) arguments,
//   - the call's results bound to the (resolved) operands of the return taken,
//   - what the path has learned about conditions (pathEnv) kept, so that the caller's
//     `if err != nil` after `return nil, err` on the helper's error edge takes one branch only.
// Deferred calls are replayed at the function's RunDefers in reverse order. Everything the
// environment cannot decide is explored both ways, so the set of explored paths is a superset
// of the feasible ones: a rule that demands something of EVERY path stays sound, at the price
// of a possible alarm (never a missed one) where the correlation is beyond this evaluator.

import (
	"go/token"

	"golang.org/x/tools/go/ssa"
)

type ipCfg[S comparable] struct {
	w *World
	// Inline: enter the callee at this call site?
	Inline func(site ssa.CallInstruction, callee *ssa.Function) bool
	// Step: state transition for one instruction (calls, including the inlined ones before they
	// are entered; deferred calls when they run). stack: the inlined call sites, outermost first.
	Step func(in ssa.Instruction, s S, env *pathEnv, stack []ssa.CallInstruction) S
	// Return: a return of the root function is reached in state s.
	Return func(r *ssa.Return, s S, env *pathEnv)
	// budget of block visits; Exhausted is set when it ran out (the rule must then not pass)
	Budget    int
	Exhausted bool
	// StepGo: call Step for go statements too (they are never entered)
	StepGo bool
}

type ipEdge struct{ b, p *ssa.BasicBlock }

type ipAct struct {
	fn     *ssa.Function
	onPath map[ipEdge]int
	defers []*ssa.Defer
}

// mayContain: some instruction of fn, or of a module function it statically calls
// (transitively), satisfies hit.
func (w *World) mayContain(hit func(ssa.Instruction) bool) func(fn *ssa.Function) bool {
	memo := map[*ssa.Function]int{}
	var may func(fn *ssa.Function) bool
	may = func(fn *ssa.Function) bool {
		switch memo[fn] {
		case 1:
			return false
		case 2:
			return true
		case 3:
			return false
		}
		memo[fn] = 1
		found := false
		for _, b := range fn.Blocks {
			for _, in := range b.Instrs {
				if found {
					break
				}
				if hit(in) {
					found = true
					break
				}
				if ci, ok := in.(ssa.CallInstruction); ok {
					if h := calleeOfCI(ci); h != nil && w.IsMod[h] && len(h.Blocks) > 0 && may(h) {
						found = true
					}
				}
			}
		}
		if found {
			memo[fn] = 2
		} else {
			memo[fn] = 3
		}
		return found
	}
	return may
}

// calleeOfCI: the static callee of a call/defer/go, looking through closures made in place.
func calleeOfCI(ci ssa.CallInstruction) *ssa.Function {
	if ci.Common().IsInvoke() {
		return nil
	}
	if h := ci.Common().StaticCallee(); h != nil {
		return h
	}
	return nil
}

func explorePaths[S comparable](cfg *ipCfg[S], root *ssa.Function, init S) {
	if cfg.Budget == 0 {
		cfg.Budget = 200000
	}
	if len(root.Blocks) == 0 {
		return
	}
	env := &pathEnv{phi: map[*ssa.Phi]ssa.Value{}, truth: map[ssa.Value]bool{}}
	act := &ipAct{fn: root, onPath: map[ipEdge]int{}}
	cfg.block(act, root.Blocks[0], nil, 0, init, env, nil, []*ssa.Function{root}, func(r *ssa.Return, s S, e *pathEnv) {
		cfg.Return(r, s, e)
	})
}

func (cfg *ipCfg[S]) block(act *ipAct, b, pred *ssa.BasicBlock, from int, s S, env *pathEnv,
	stack []ssa.CallInstruction, fns []*ssa.Function, k func(*ssa.Return, S, *pathEnv)) {
	cfg.Budget--
	if cfg.Budget < 0 {
		cfg.Exhausted = true
		return
	}
	if from == 0 {
		ek := ipEdge{b, pred}
		if act.onPath[ek] >= 2 {
			return
		}
		act.onPath[ek]++
		defer func() { act.onPath[ek]-- }()
		env = env.clone()
		idx := -1
		for i, p := range b.Preds {
			if p == pred {
				idx = i
			}
		}
		if idx >= 0 {
			type upd struct {
				p *ssa.Phi
				v ssa.Value
			}
			var us []upd
			for _, in := range b.Instrs {
				p, ok := in.(*ssa.Phi)
				if !ok {
					break
				}
				us = append(us, upd{p, env.resolve(p.Edges[idx])})
			}
			for _, u := range us {
				env.phi[u.p] = u.v
			}
		}
		for _, in := range b.Instrs {
			if v, ok := in.(ssa.Value); ok {
				if _, isPhi := in.(*ssa.Phi); !isPhi {
					env.forget(v)
				}
			}
		}
	}
	for i := from; i < len(b.Instrs); i++ {
		switch x := b.Instrs[i].(type) {
		case *ssa.Defer:
			// runs at RunDefers; the activation's list is path-local (copied on write)
			a2 := *act
			a2.defers = append(append([]*ssa.Defer{}, act.defers...), x)
			act = &a2
		case *ssa.Go:
			// another goroutine: not part of this path (rules that care about goroutines
			// being STARTED on the path ask to see the statement)
			if cfg.StepGo {
				s = cfg.Step(x, s, env, stack)
			}
		case *ssa.RunDefers:
			ds := act.defers
			i0 := i
			var runDefer func(n int, s S, env *pathEnv)
			runDefer = func(n int, s S, env *pathEnv) {
				if n < 0 {
					a2 := *act
					a2.defers = nil
					cfg.block(&a2, b, pred, i0+1, s, env, stack, fns, k)
					return
				}
				d := ds[n]
				s = cfg.Step(d, s, env, stack)
				if h := cfg.inlinee(d, fns); h != nil {
					cfg.enter(d, h, s, env, stack, fns, func(_ *ssa.Return, s2 S, e2 *pathEnv) { runDefer(n-1, s2, e2) })
					return
				}
				env = env.clone()
				env.clobberedBy(d)
				runDefer(n-1, s, env)
			}
			runDefer(len(ds)-1, s, env)
			return
		case *ssa.Call:
			s = cfg.Step(x, s, env, stack)
			if h := cfg.inlinee(x, fns); h != nil {
				i1 := i
				cfg.enter(x, h, s, env, stack, fns, func(r *ssa.Return, s2 S, e2 *pathEnv) {
					e3 := e2.clone()
					if r != nil {
						var rs []ssa.Value
						for _, v := range r.Results {
							rs = append(rs, e2.resolve(cfg.w.resolveLoad(v)))
						}
						if e3.res == nil {
							e3.res = map[*ssa.Call][]ssa.Value{}
						}
						e3.res[x] = rs
					}
					cfg.block(act, b, pred, i1+1, s2, e3, stack, fns, k)
				})
				return
			}
			env.clobberedBy(x)
		case *ssa.Store:
			env.store(x)
			s = cfg.Step(x, s, env, stack)
		case *ssa.Return:
			k(x, s, env)
			return
		case *ssa.Panic:
			return
		case *ssa.If:
			if b.Succs[0] != b.Succs[1] {
				if known, t := env.eval(x.Cond, 0); known {
					sb := b.Succs[1]
					if t {
						sb = b.Succs[0]
					}
					e2 := env.clone()
					e2.learn(x.Cond, t)
					cfg.block(act, sb, b, 0, s, e2, stack, fns, k)
					return
				}
				for j, sb := range b.Succs {
					if deadEdge(b, sb) {
						continue
					}
					e2 := env.clone()
					e2.learn(x.Cond, j == 0)
					cfg.block(act, sb, b, 0, s, e2, stack, fns, k)
				}
				return
			}
		default:
			s = cfg.Step(x, s, env, stack)
		}
	}
	for _, sb := range liveSuccs(b) {
		cfg.block(act, sb, b, 0, s, env, stack, fns, k)
	}
}

func (cfg *ipCfg[S]) inlinee(ci ssa.CallInstruction, fns []*ssa.Function) *ssa.Function {
	h := calleeOfCI(ci)
	if h == nil || len(h.Blocks) == 0 || len(fns) > 5 {
		return nil
	}
	for _, f := range fns {
		if f == h {
			return nil
		}
	}
	if cfg.Inline == nil || !cfg.Inline(ci, h) {
		return nil
	}
	return h
}

// enter explores callee h from its entry; k receives each of its returns.
func (cfg *ipCfg[S]) enter(site ssa.CallInstruction, h *ssa.Function, s S, env *pathEnv,
	stack []ssa.CallInstruction, fns []*ssa.Function, k func(*ssa.Return, S, *pathEnv)) {
	e2 := env.clone()
	if e2.bind == nil {
		e2.bind = map[ssa.Value]ssa.Value{}
	}
	// a new activation: what was known of the callee's own values belongs to an earlier one
	for v := range e2.truth {
		if in, ok := v.(ssa.Instruction); ok && in.Parent() == h {
			delete(e2.truth, v)
		}
	}
	for v := range e2.nilK {
		if in, ok := v.(ssa.Instruction); ok && in.Parent() == h {
			delete(e2.nilK, v)
		}
	}
	args := site.Common().Args
	for i, p := range h.Params {
		if i < len(args) {
			e2.bind[p] = env.resolve(cfg.w.resolveLoad(args[i]))
		}
	}
	if mc, ok := site.Common().Value.(*ssa.MakeClosure); ok {
		for i, fv := range h.FreeVars {
			if i < len(mc.Bindings) {
				e2.bind[fv] = env.resolve(mc.Bindings[i])
			}
		}
	}
	act := &ipAct{fn: h, onPath: map[ipEdge]int{}}
	st2 := append(append([]ssa.CallInstruction{}, stack...), site)
	fn2 := append(append([]*ssa.Function{}, fns...), h)
	cfg.block(act, h.Blocks[0], nil, 0, s, e2, st2, fn2, k)
}

// isNilCmp: v is `x == nil` / `x != nil`; returns x and whether the operator is ==.
func isNilCmp(v ssa.Value) (ssa.Value, bool, bool) {
	bo, ok := v.(*ssa.BinOp)
	if !ok || (bo.Op != token.EQL && bo.Op != token.NEQ) {
		return nil, false, false
	}
	if isNilConst(bo.Y) {
		return bo.X, bo.Op == token.EQL, true
	}
	if isNilConst(bo.X) {
		return bo.Y, bo.Op == token.EQL, true
	}
	return nil, false, false
}
