package main

// Closed refusal sets.
//
// Several properties promise the positive half as well: Decode succeeds *exactly* for buffers
// with a valid number and the declared bytes, every ChannelData of a bound channel *is*
// relayed, the first response with the request's transaction id *completes* the transaction,
// every relayed payload *reaches* ReadFrom. A hardening commit that adds one more "if
// suspicious { drop }" breaks that half without touching anything the other rules look at.
//
// refusalEdges finds, in the region of a function that starts at `start` (the entry, or a
// read call inside a loop: the region is then one iteration), the branch edges at which
// delivery becomes impossible: the source block can still reach a delivering instruction,
// the target cannot. Each such edge is a refusal, and the rule instance says which refusals
// the property sanctions, by the must-facts on the edge. Anything else is reported with its
// condition.

import (
	"golang.org/x/tools/go/ssa"
)

type refusalEdge struct {
	from, to *ssa.BasicBlock
	facts    []Fact // everything that must hold on the edge
	own      []Fact // the branch's own condition
}

func (w *World) refusalEdges(fn *ssa.Function, start ssa.Instruction, isDeliver func(ssa.Instruction) bool) []refusalEdge {
	if len(fn.Blocks) == 0 {
		return nil
	}
	startB := fn.Blocks[0]
	if start != nil {
		startB = start.Block()
	}
	// forward reachability from the start block (without re-entering it)
	reach := map[*ssa.BasicBlock]bool{}
	var fw func(b *ssa.BasicBlock)
	fw = func(b *ssa.BasicBlock) {
		if reach[b] {
			return
		}
		reach[b] = true
		for _, s := range liveSuccs(b) {
			if s != startB {
				fw(s)
			}
		}
	}
	fw(startB)
	// backward: blocks from which a delivering instruction can still be executed before the
	// region is left or restarted
	can := map[*ssa.BasicBlock]bool{}
	for b := range reach {
		for _, in := range b.Instrs {
			if isDeliver(in) {
				can[b] = true
			}
		}
	}
	for changed := true; changed; {
		changed = false
		for b := range reach {
			if can[b] {
				continue
			}
			for _, s := range liveSuccs(b) {
				if s != startB && can[s] {
					can[b] = true
					changed = true
				}
			}
		}
	}
	var out []refusalEdge
	for _, b := range fn.Blocks {
		if !reach[b] || len(b.Succs) < 2 {
			continue
		}
		// does the block itself deliver before it branches? then its branch decides nothing
		own := false
		for _, in := range b.Instrs {
			if isDeliver(in) {
				own = true
			}
		}
		if own {
			continue
		}
		some := false
		for _, s := range liveSuccs(b) {
			if s != startB && can[s] {
				some = true
			}
		}
		if !some {
			continue
		}
		for _, s := range liveSuccs(b) {
			if s != startB && can[s] {
				continue
			}
			var fs []Fact
			fs = append(fs, w.factsAt(b.Instrs[len(b.Instrs)-1])...)
			fs = append(fs, edgeFacts(b, s)...)
			out = append(out, refusalEdge{b, s, w.importFacts(fs), edgeFacts(b, s)})
		}
	}
	return out
}

// edgeCondStr: the condition of the edge, for messages.
func (w *World) edgeCondStr(e refusalEdge) string {
	var ss []string
	for _, f := range edgeFacts(e.from, e.to) {
		ss = append(ss, w.factStr(f))
	}
	if len(ss) == 0 {
		return "the branch at " + w.instrPos(e.from.Instrs[len(e.from.Instrs)-1])
	}
	s := ss[0]
	for _, x := range ss[1:] {
		s += " ∧ " + x
	}
	return s + " (" + w.instrPos(e.from.Instrs[len(e.from.Instrs)-1]) + ")"
}

// factNilCall: f says the result (#idx, or the single result for idx<0) of a call accepted by
// `callee` is nil (isNil=true) / non-nil.
func (w *World) factNilCall(f Fact, isNil bool, callee func(*ssa.Call) bool) bool {
	v, n, ok := nilFact(f)
	if !ok || n != isNil {
		return false
	}
	call, _ := callOf(w.resolveLoad(v))
	return call != nil && callee(call)
}

func calleeNamed(names ...string) func(*ssa.Call) bool {
	return func(c *ssa.Call) bool {
		n := ""
		if c.Call.IsInvoke() {
			n = c.Call.Method.Name()
		} else if h := c.Call.StaticCallee(); h != nil {
			n = h.Name()
		}
		for _, x := range names {
			if n == x {
				return true
			}
		}
		return false
	}
}

// calleeOrWrapper: the callee is one of the names, or a module function whose body (single-site
// helpers included) calls one of them — a helper that wraps the named step and hands its
// outcome on.
func (w *World) calleeOrWrapper(names ...string) func(*ssa.Call) bool {
	direct := calleeNamed(names...)
	return func(c *ssa.Call) bool {
		if direct(c) {
			return true
		}
		h := c.Call.StaticCallee()
		if h == nil || !w.IsMod[h] || len(h.Blocks) == 0 {
			return false
		}
		found := false
		w.eachInstrDeep(h, func(in ssa.Instruction) {
			if c2, ok := in.(*ssa.Call); ok && direct(c2) {
				found = true
			}
		})
		return found
	}
}

// ruleRefusals runs one site: every refusal edge must be sanctioned.
func ruleRefusals(c *Ctx, rule string, fn *ssa.Function, what string, start ssa.Instruction, isDeliver func(ssa.Instruction) bool, sanctioned func(e refusalEdge) string, consequence string) {
	w := c.W
	c.Anchor(rule, fname(fn)+" "+what)
	bad, oks, n, found := refusalsIn(w, fn, start, isDeliver, sanctioned, 0)
	if !found {
		c.Bad(rule, fname(fn), what, w.pos(fn.Pos()), "no delivering instruction found: anchor gone")
		return
	}
	if bad != "" {
		c.Bad(rule, fname(fn), what, w.pos(fn.Pos()), bad+", which is none of the reasons the property allows: "+consequence)
		return
	}
	c.OK(rule, fname(fn), what, w.pos(fn.Pos()), fmtRefusals(n, oks))
}

// refusalsIn: the refusal edges of fn; when the delivering instruction sits in a helper that fn
// (or a helper of it) calls at one site, the call is the delivery as far as fn is concerned
// and the helper is examined in turn.
func refusalsIn(w *World, fn *ssa.Function, start ssa.Instruction, isDeliver func(ssa.Instruction) bool, sanctioned func(e refusalEdge) string, depth int) (bad string, oks []string, n int, found bool) {
	has := func(g *ssa.Function) bool {
		f := false
		w.eachInstr(g, func(in ssa.Instruction) {
			if isDeliver(in) {
				f = true
			}
		})
		return f
	}
	var inner []*ssa.Function
	deliver := isDeliver
	if !has(fn) {
		if depth > 2 {
			return "", nil, 0, false
		}
		// helpers called from fn that deliver (directly or through their own helpers)
		var delivers func(g *ssa.Function, d int) bool
		delivers = func(g *ssa.Function, d int) bool {
			if has(g) {
				return true
			}
			if d > 2 {
				return false
			}
			r := false
			w.eachInstr(g, func(in ssa.Instruction) {
				if call, ok := in.(*ssa.Call); ok {
					if h := call.Call.StaticCallee(); h != nil && h != g && w.IsMod[h] && len(h.Blocks) > 0 && fnPkgPath(h) == fnPkgPath(g) && delivers(h, d+1) {
						r = true
					}
				}
			})
			return r
		}
		seen := map[*ssa.Function]bool{}
		w.eachInstr(fn, func(in ssa.Instruction) {
			if call, ok := in.(*ssa.Call); ok {
				if h := call.Call.StaticCallee(); h != nil && h != fn && w.IsMod[h] && len(h.Blocks) > 0 && fnPkgPath(h) == fnPkgPath(fn) && !seen[h] && delivers(h, 0) {
					seen[h] = true
					inner = append(inner, h)
				}
			}
		})
		if len(inner) == 0 {
			return "", nil, 0, false
		}
		deliver = func(in ssa.Instruction) bool {
			call, ok := in.(*ssa.Call)
			return ok && call.Call.StaticCallee() != nil && seen[call.Call.StaticCallee()]
		}
	}
	edges := w.refusalEdges(fn, start, deliver)
	n = len(edges)
	for _, e := range edges {
		if why := sanctioned(e); why != "" {
			oks = append(oks, why)
			continue
		}
		if why := helperVerdict(w, e, sanctioned, depth); why != "" {
			oks = append(oks, why)
			continue
		}
		if bad == "" {
			bad = "refuses under " + w.edgeCondStr(e)
		}
	}
	for _, h := range inner {
		b2, o2, n2, _ := refusalsIn(w, h, nil, isDeliver, sanctioned, depth+1)
		if bad == "" {
			bad = b2
		}
		oks = append(oks, o2...)
		n += n2
	}
	return bad, oks, n, true
}

func fmtRefusals(n int, oks []string) string {
	seen := map[string]bool{}
	s := ""
	for _, o := range oks {
		if !seen[o] {
			seen[o] = true
			if s != "" {
				s += "; "
			}
			s += o
		}
	}
	if n == 0 {
		return "no refusing branch before the delivery"
	}
	return "every refusing branch is one the property allows: " + s
}

// helperVerdict: the branch tests the boolean result of a module helper (relayable, permitted,
// ok …). The refusal is sanctioned when every return of the helper that can yield the refusing
// truth value is itself reached only for a sanctioned reason (the must-facts at that return,
// in the helper's own terms).
func helperVerdict(w *World, e refusalEdge, sanctioned func(e refusalEdge) string, depth int) string {
	if depth > 2 {
		return ""
	}
	for _, f := range e.own {
		if f.Op != "true" {
			continue
		}
		call, idx := callOf(w.resolveLoad(f.X))
		if call == nil {
			continue
		}
		h := call.Call.StaticCallee()
		if h == nil || !w.IsMod[h] || len(h.Blocks) == 0 {
			continue
		}
		if idx < 0 {
			idx = 0
		}
		if idx >= h.Signature.Results().Len() || h.Signature.Results().At(idx).Type().String() != "bool" {
			continue
		}
		all, n := true, 0
		why := ""
		for _, r := range returnsOf(h) {
			v := w.resolveLoad(r.Results[idx])
			if k, isK := v.(*ssa.Const); isK && k.Value != nil {
				if (k.Value.String() == "true") != f.Truth {
					continue // this return yields the other truth value
				}
			}
			n++
			pe := refusalEdge{from: r.Block(), to: r.Block(), facts: w.importFacts(w.factsAt(r))}
			if len(r.Block().Preds) == 1 {
				pe.own = edgeFacts(r.Block().Preds[0], r.Block())
			}
			wy := sanctioned(pe)
			if wy == "" {
				wy = helperVerdict(w, pe, sanctioned, depth+1)
			}
			if wy == "" {
				all = false
			} else {
				why = wy
			}
		}
		if all && n > 0 {
			return why + " (through " + fname(h) + ")"
		}
	}
	return ""
}
