package main

import (
	"fmt"
	"go/constant"
	"go/token"
	"go/types"
	"sort"
	"strings"

	"golang.org/x/tools/go/ssa"
)

func init() {
	register(&propDef{
		ID:        "C07",
		Title:     "Permissions and channel bindings live one full timeout past their last refresh",
		Technique: "role flow (field-based backward value flow with per-object precision for locals) from configuration to every timer-arming call, must-pass-through on the refresh branches, constants located by use, atomic-section lint on the removers",
		Explanation: "C07.1 every duration that arms or resets a Permission timer originates only from ServerConfig.PermissionTimeout or the 5-minute default, every duration for a ChannelBind timer only from ServerConfig.ChannelBindTimeout or the 10-minute default (a swap of the two, or re-use of one for the other, is a violation); " +
			"C07.2 refresh restarts the full timeout: on the existing-entry edge AddPermission resets with the new request's timeout; on every path of AddChannelBind that returns nil the binding is started or refreshed with channelLifetime and AddPermission(NewPermission(peer, _, permissionLifetime)) is called, unconditionally on both the new and the existing branch; " +
			"C07.3 (=C01.5) expiry closures remove exactly their own entry; " +
			"C07.4 the defaults replacing a zero configuration are constants equal to 5 and 10 minutes; " +
			"C07.6 installed addresses do not alias decode storage (else expiry removes another peer's key); " +
			"C07.7 the lifetime timer that a refresh restarts belongs to the entry the table holds now (obtained by lookup/index/range of the table through all call sites), never to a pointer remembered elsewhere; " +
			"C07.9 (=C01.9) the permission key is a canonical form of the peer IP, so a refresh in either spelling of an IPv4 address restarts the one entry; " +
			"C07.5 find-and-remove in RemoveChannelBind/RemovePermission is one critical section: every direct read of the table in a function that removes from it happens under the same continuous hold of the write lock. C07.10 (=C05.10) a bound channel relays until it expires: closed refusal sets of the ChannelData path and the relay loop.",
		NotCovered: "the instants at which timers fire; that an expired number/peer is free again beyond the removal checked in C07.3; races between expiry and a concurrent refresh.",
		Run:        runC07,
	})
}

func runC07(c *Ctx) {
	w := c.W

	// ---- C07.1
	ruleTimerRoles(c, "C07.1")

	// ---- C07.2
	c.Rule("C07.2", "refresh restarts the full timeout: AddPermission's existing-entry edge calls existing.refresh(perms.timeout) with the timeout of the permission passed in; the new-entry path calls perms.start(perms.timeout); every nil-returning path of AddChannelBind passes start(channelLifetime) or refresh(channelLifetime) on the binding and AddPermission(NewPermission(that binding's peer, _, permissionLifetime))", 4)
	{
		addPerm := w.Func("allocation", "Allocation", "AddPermission")
		nR, nS := 0, 0
		// (helpers with several call sites are entered with their parameters expressed in
		// AddPermission's terms)
		w.eachInstrThrough(addPerm, 4, func(in ssa.Instruction, rs func(ssa.Value) ssa.Value) {
			op := w.timerOpOf(in)
			if op == nil || op.typ != "Permission" {
				return
			}
			dur, obj := rs(op.dur), rs(op.obj)
			switch op.kind {
			case "reset":
				nR++
				c.Anchor("C07.2", "AddPermission refresh")
				// the new request's timeout: the timeout field of the parameter
				okArg := w.isFieldLoadOf(dur, addPerm.Params[1], "timeout")
				// on the found edge: the object is the map lookup result, ok is true
				lkv := stripIface(w.resolveLoad(obj))
				if w.isSynthetic(lkv) {
					lkv = stripIface(w.realOf(lkv))
				}
				if vv, isV := lkv.(*virtVal); isV {
					lkv = stripIface(w.resolveLoad(under(vv)))
				}
				lk, _ := lkv.(*ssa.Extract)
				okRecv := lk != nil && lk.Index == 0 && lookupPairOf(w, lk.Tuple, w.Field("allocation", "Allocation", "permissions"))
				okEdge := false
				var at ssa.Instruction = in
				if lk != nil && lk.Parent() != in.Parent() {
					// the reset sits in refresh(), called where the lookup was made: judge the edge there
					for _, cs := range w.callsTo(in.Parent()) {
						if cs.Parent() == lk.Parent() {
							at = cs
						}
					}
				}
				for _, f := range w.factsAt(at) {
					if f.Op == "true" && f.Truth {
						if e, isE := f.X.(*ssa.Extract); isE && lk != nil && e.Tuple == lk.Tuple && e.Index == 1 {
							okEdge = true
						}
					}
				}
				if okArg && okRecv && okEdge {
					c.OK("C07.2", fname(addPerm), "existing.refresh", w.instrPos(in), "existing entry is reset with the new request's perms.timeout on the found edge")
				} else {
					c.Bad("C07.2", fname(addPerm), "existing.refresh", w.instrPos(in), fmt.Sprintf("refresh of an existing permission does not restart the full new timeout (arg is perms.timeout=%v, receiver is the looked-up entry=%v, on the found edge=%v)", okArg, okRecv, okEdge))
				}
			case "arm":
				nS++
				c.Anchor("C07.2", "AddPermission start")
				if (obj == ssa.Value(addPerm.Params[1]) || w.sameKey(obj, addPerm.Params[1])) && w.isFieldLoadOf(dur, addPerm.Params[1], "timeout") {
					c.OK("C07.2", fname(addPerm), "perms.start", w.instrPos(in), "new entry started with its own timeout")
				} else {
					c.Bad("C07.2", fname(addPerm), "perms.start", w.instrPos(in), "new permission is not started with its own timeout")
				}
			}
		})
		if nR == 0 {
			c.Bad("C07.2", fname(addPerm), "existing.refresh", w.pos(addPerm.Pos()), "an existing permission is no longer refreshed by AddPermission")
		}
		if nS == 0 {
			c.Bad("C07.2", fname(addPerm), "perms.start", w.pos(addPerm.Pos()), "a new permission is no longer started by AddPermission")
		}
		// must-pass: every path from entry to a return (helpers inlined, results correlated)
		// passes a reset or an arm of a permission timer
		isPermOp := func(in ssa.Instruction) bool {
			op := w.timerOpOf(in)
			return op != nil && op.typ == "Permission"
		}
		may := w.mayContain(isPermOp)
		badPath := ""
		cfg := &ipCfg[bool]{w: w}
		cfg.Inline = func(_ ssa.CallInstruction, h *ssa.Function) bool {
			return w.IsMod[h] && fnPkgPath(h) == fnPkgPath(addPerm) && may(h)
		}
		cfg.Step = func(in ssa.Instruction, hit bool, _ *pathEnv, _ []ssa.CallInstruction) bool {
			return hit || isPermOp(in)
		}
		cfg.Return = func(r *ssa.Return, hit bool, env *pathEnv) {
			// a refusal (AddPermission reporting an error that is known not to be nil) installs nothing
			if n := len(r.Results); n > 0 && isErrorType(r.Results[n-1].Type()) {
				if known, isNil := env.knownNil(r.Results[n-1]); known && !isNil {
					return
				}
			}
			if !hit {
				badPath = "the return at " + w.instrPos(r)
			}
		}
		explorePaths(cfg, addPerm, false)
		if badPath != "" || cfg.Exhausted {
			c.Bad("C07.2", fname(addPerm), "all paths", w.pos(addPerm.Pos()), "a path through AddPermission neither refreshes the existing entry nor starts the new one ("+badPath+")")
		}
	}
	{
		acb := w.Func("allocation", "Allocation", "AddChannelBind")
		addPerm := w.Func("allocation", "Allocation", "AddPermission")
		newPerm := w.Func("allocation", "", "NewPermission")
		chanLife, permLife := acb.Params[2], acb.Params[3]
		c.Anchor("C07.2", "AddChannelBind channel timer")
		c.Anchor("C07.2", "AddChannelBind permission")
		type cst struct{ perm, ch bool }
		isOp := func(in ssa.Instruction) bool { return w.timerOpOf(in) != nil }
		may := w.mayContain(isOp)
		badChan, badPerm := "", ""
		nOK := 0
		cfg := &ipCfg[cst]{w: w}
		cfg.Inline = func(_ ssa.CallInstruction, h *ssa.Function) bool {
			return w.IsMod[h] && fnPkgPath(h) == fnPkgPath(acb) && may(h)
		}
		cfg.Step = func(in ssa.Instruction, s cst, env *pathEnv, _ []ssa.CallInstruction) cst {
			op := w.timerOpOf(in)
			if op == nil {
				return s
			}
			d := env.resolve(op.dur)
			switch op.typ {
			case "ChannelBind":
				if d == ssa.Value(chanLife) || w.sameKey(d, chanLife) {
					s.ch = true
				}
			case "Permission":
				if d == ssa.Value(permLife) || w.sameKey(d, permLife) {
					s.perm = true
				} else if base, f, isL := fieldLoad(d); isL && nm(f) == "timeout" {
					// the timeout of a permission built by NewPermission(_, _, permissionLifetime)
					if np, _ := callOf(stripIface(env.resolve(w.resolveLoadLocal(base)))); np != nil && np.Call.StaticCallee() == newPerm && len(np.Call.Args) == 3 {
						l := env.resolve(np.Call.Args[2])
						if l == ssa.Value(permLife) || w.sameKey(l, permLife) {
							s.perm = true
						}
					}
				}
			}
			return s
		}
		cfg.Return = func(r *ssa.Return, s cst, env *pathEnv) {
			if known, isNil := env.knownNil(r.Results[0]); !(known && isNil) && !isNilConst(w.resolveLoad(r.Results[0])) {
				return // an error return
			}
			nOK++
			if !s.ch {
				badChan = w.instrPos(r)
			}
			if !s.perm {
				badPerm = w.instrPos(r)
			}
		}
		explorePaths(cfg, acb, cst{})
		_ = addPerm
		switch {
		case cfg.Exhausted || nOK == 0:
			c.Bad("C07.2", fname(acb), "channel timer", w.pos(acb.Pos()), "undecided: no success path of AddChannelBind could be explored")
		default:
			if badChan == "" {
				c.OK("C07.2", fname(acb), "channel timer", w.pos(acb.Pos()), fmt.Sprintf("every one of the %d success paths starts or refreshes the binding with channelLifetime", nOK))
			} else {
				c.Bad("C07.2", fname(acb), "channel timer", badChan, "a successful ChannelBind can return without (re)starting the binding's timer with the full channelLifetime")
			}
			if badPerm == "" {
				c.OK("C07.2", fname(acb), "permission refresh", w.pos(acb.Pos()), fmt.Sprintf("every one of the %d success paths installs or refreshes the peer's permission with permissionLifetime", nOK))
			} else {
				c.Bad("C07.2", fname(acb), "permission refresh", badPerm, "a successful ChannelBind can return without installing/refreshing the peer's permission with the full permissionLifetime")
			}
		}
	}

	// ---- C07.3
	ruleExpiryRemoves(c, "C07.3")

	// ---- C07.4
	c.Rule("C07.4", "defaults located by use: the value stored into Server.permissionTimeout on the ==0 edge is a constant equal to 5 minutes, into Server.channelBindTimeout a constant equal to 10 minutes, into Server.allocationLifetime a constant equal to 10 minutes; Request.{PermissionTimeout,ChannelBindTimeout,AllocationLifetime} are filled from the like-named Server fields", 6)
	{
		ns := w.Func("turn", "", "NewServer")
		type def struct {
			field string
			want  int64
		}
		for _, d := range []def{{"permissionTimeout", 300e9}, {"channelBindTimeout", 600e9}, {"allocationLifetime", 600e9}} {
			f := w.Field("turn", "Server", d.field)
			c.Anchor("C07.4", "default "+d.field)
			found := false
			w.eachInstr(ns, func(in ssa.Instruction) {
				st, ok := in.(*ssa.Store)
				if !ok {
					return
				}
				fa, ok := st.Addr.(*ssa.FieldAddr)
				if !ok || fieldOf(fa) != f {
					return
				}
				k, isC := constInt(st.Val)
				if !isC {
					// cmp.Or(configured, K): the zero value is replaced by construction
					if kk, isOr := defaultOfOr(w, st.Val); isOr {
						found = true
						if kk == d.want {
							c.OK("C07.4", fname(ns), "default "+d.field, w.instrPos(in), fmt.Sprintf("cmp.Or(configured, %d ns): a zero %s becomes the constant", kk, d.field))
						} else {
							c.Bad("C07.4", fname(ns), "default "+d.field, w.instrPos(in), fmt.Sprintf("default for %s is %d ns, expected %d ns", d.field, kk, d.want))
						}
					}
					return // the copy from the configuration
				}
				found = true
				zeroEdge := false
				for _, fct := range w.factsAt(in) {
					if fct.Op == "==" && fct.Truth {
						for _, pair := range [][2]ssa.Value{{fct.X, fct.Y}, {fct.Y, fct.X}} {
							if z, ok := constInt(pair[1]); ok && z == 0 {
								if _, fl, isL := fieldLoad(pair[0]); isL && fl == f {
									zeroEdge = true
								}
							}
						}
					}
				}
				if k == d.want && zeroEdge {
					c.OK("C07.4", fname(ns), "default "+d.field, w.instrPos(in), fmt.Sprintf("constant %d ns on the %s == 0 edge", k, d.field))
				} else {
					c.Bad("C07.4", fname(ns), "default "+d.field, w.instrPos(in), fmt.Sprintf("default for %s is %d ns (on the ==0 edge: %v), expected %d ns", d.field, k, zeroEdge, d.want))
				}
			})
			if !found {
				c.Bad("C07.4", fname(ns), "default "+d.field, w.pos(ns.Pos()), "a zero "+d.field+" is no longer replaced by a default")
			}
		}
		rl := w.Func("turn", "Server", "readLoop")
		for _, lit := range w.requestBuild().lits {
			for rf, sf := range map[string]string{"PermissionTimeout": "permissionTimeout", "ChannelBindTimeout": "channelBindTimeout", "AllocationLifetime": "allocationLifetime"} {
				c.Anchor("C07.4", "Request."+rf)
				v := lit.fields[rf]
				_, f, isL := fieldLoad(v)
				if v != nil && isL && f == w.Field("turn", "Server", sf) {
					c.OK("C07.4", fname(rl), "Request."+rf, w.requestBuild().at[lit], "filled from Server."+sf)
				} else {
					c.Bad("C07.4", fname(rl), "Request."+rf, w.requestBuild().at[lit], "Request."+rf+" is filled from "+w.key(v)+", not Server."+sf)
				}
			}
		}
	}

	// ---- C07.5
	ruleAtomicRemove(c, "C07.5")
	ruleInstalledAddrFresh(c, "C07.6")
	ruleTimerOnLiveEntry(c, "C07.7")
	ruleReportWithRemoval(c, "C07.8")
	ruleChannelPathRefusals(c, "C07.10")

	// ---- C07.9 (=C01.9/C02.3): a refresh finds the entry it refreshes however the peer's IPv4
	// address is spelled — the permission key is a canonical form of the IP
	ruleAddrDeps(c, "C07.9")
}

// allPathsTo: every path from the function entry to block `to` contains an instruction
// satisfying hit (checked as: `to` is unreachable from entry when all blocks containing a hit
// are removed).
func allPathsTo(fn *ssa.Function, to *ssa.BasicBlock, hit func(ssa.Instruction) bool) bool {
	blocked := map[*ssa.BasicBlock]bool{}
	for _, b := range fn.Blocks {
		for _, in := range b.Instrs {
			if hit(in) {
				blocked[b] = true
				break
			}
		}
	}
	if blocked[to] {
		return true
	}
	seen := map[*ssa.BasicBlock]bool{}
	stack := []*ssa.BasicBlock{fn.Blocks[0]}
	for len(stack) > 0 {
		b := stack[len(stack)-1]
		stack = stack[:len(stack)-1]
		if seen[b] || blocked[b] {
			continue
		}
		seen[b] = true
		if b == to {
			return false
		}
		stack = append(stack, liveSuccs(b)...)
	}
	return true
}

// ruleAtomicRemove: in a function that removes from a guarded table, every direct read of the
// table lies in the same critical section (same acquiring Lock call, continuously held) as
// the removing write.
func ruleAtomicRemove(c *Ctx, rule string) {
	w := c.W
	c.Rule(rule, "atomic find-and-remove: in RemoveChannelBind and RemovePermission every direct read of the table field and the write that removes from it are dominated by one and the same write-Lock call with no Unlock of that lock between them", 2)
	type spec struct{ fn, field, lock string }
	for _, s := range []spec{{"RemoveChannelBind", "channelBindings", "allocation.Allocation.channelBindingsLock"}, {"RemovePermission", "permissions", "allocation.Allocation.permissionsLock"}} {
		fn := w.Func("allocation", "Allocation", s.fn)
		fld := w.Field("allocation", "Allocation", s.field)
		c.Anchor(rule, s.fn)
		// the find-and-remove may sit in a helper of its own (unlink(k) returning the element
		// taken out): the obligation is that helper's
		{
			has := func(g *ssa.Function) bool {
				n := 0
				w.eachInstr(g, func(in ssa.Instruction) {
					if fa, ok := in.(*ssa.FieldAddr); ok && fieldOf(fa) == fld && fieldAddrIsWritten(fa) {
						n++
					}
				})
				return n > 0
			}
			if !has(fn) {
				for _, h := range w.helpersOf(fn) {
					if h != fn && h.Parent() == nil && has(h) {
						fn = h
						break
					}
				}
			}
		}
		// lock/unlock calls of the class
		var locks, unlocks []ssa.Instruction
		w.eachInstr(fn, func(in ssa.Instruction) {
			if call, ok := in.(*ssa.Call); ok {
				if lo := w.lockOpOf(&call.Call); lo != nil && lo.class == s.lock {
					switch lo.op {
					case "Lock":
						locks = append(locks, in)
					case "Unlock", "RUnlock":
						unlocks = append(unlocks, in)
					}
				}
			}
		})
		var accesses []ssa.Instruction
		nWrite := 0
		w.eachInstr(fn, func(in ssa.Instruction) {
			if fa, ok := in.(*ssa.FieldAddr); ok && fieldOf(fa) == fld {
				accesses = append(accesses, in)
				if fieldAddrIsWritten(fa) {
					nWrite++
				}
			}
		})
		if nWrite == 0 {
			c.Bad(rule, fname(fn), s.field, w.pos(fn.Pos()), s.fn+" no longer removes from "+s.field+": anchor gone")
			continue
		}
		bad := ""
		if len(locks) != 1 {
			bad = fmt.Sprintf("%d write-Lock calls on %s (expected one critical section)", len(locks), s.lock)
		} else {
			for _, a := range accesses {
				dom := locks[0].Block() == a.Block() && indexIn(locks[0]) < indexIn(a) || (locks[0].Block() != a.Block() && locks[0].Block().Dominates(a.Block()))
				if !dom {
					bad = "table access at " + w.instrPos(a) + " is not inside the write-locked section"
				}
				for _, u := range unlocks {
					if instrReaches(locks[0], u) && instrReaches(u, a) {
						bad = "the lock is released at " + w.instrPos(u) + " between the lookup and the removal (table access at " + w.instrPos(a) + "): a concurrent bind/refresh can interleave"
					}
				}
			}
		}
		if bad == "" {
			c.OK(rule, fname(fn), s.field, w.pos(fn.Pos()), fmt.Sprintf("%d table accesses, all inside one write-locked section", len(accesses)))
		} else {
			c.Bad(rule, fname(fn), s.field, w.pos(fn.Pos()), bad)
		}
	}
}

func ruleTimerRoles(c *Ctx, rule string) {
	w := c.W
	fi := w.flow()
	fiveMin := constant.MakeInt64(int64(300e9)).ExactString()
	tenMin := constant.MakeInt64(int64(600e9)).ExactString()
	// ---- C07.1
	c.Rule(rule, "role flow: the duration of every time.AfterFunc / Timer.Reset in a method of Permission derives only from {ServerConfig.PermissionTimeout, 5 min}; in a method of ChannelBind only from {ServerConfig.ChannelBindTimeout, 10 min}; package-allocation API parameters without module callers are tolerated as embedding/test entry points", 4)
	type role struct{ typ, cfg, def string }
	for _, r := range []role{{"Permission", "cfg:ServerConfig.PermissionTimeout", "const:" + fiveMin}, {"ChannelBind", "cfg:ServerConfig.ChannelBindTimeout", "const:" + tenMin}} {
		for _, kind := range []string{"arm", "reset"} {
			n := 0
			for _, fn := range w.ModFns {
				w.eachInstr(fn, func(in ssa.Instruction) {
					op := w.timerOpOf(in)
					if op == nil || op.typ != r.typ || op.kind != kind {
						return
					}
					n++
					c.Anchor(rule, r.typ+"."+kind)
					lv := fi.leaves(op.dur)
					var bad []string
					for _, l := range leafList(lv) {
						switch {
						case l == r.cfg, l == r.def:
						case strings.HasPrefix(l, "param:") && strings.Contains(l, "allocation."):
						default:
							bad = append(bad, l)
						}
					}
					if len(bad) == 0 {
						c.OK(rule, fname(fn), r.typ+" timer duration", w.instrPos(in), "sources: "+strings.Join(leafList(lv), ", "))
					} else {
						c.Bad(rule, fname(fn), r.typ+" timer duration", w.instrPos(in), "a "+r.typ+" timer can be armed with a duration of another role: "+strings.Join(bad, ", ")+" (all sources: "+strings.Join(leafList(lv), ", ")+")")
					}
				})
			}
			if n == 0 {
				c.Bad(rule, "allocation."+r.typ, r.typ+" timer duration", "-", "no "+kind+" of a "+r.typ+" lifetime timer is left in the module: anchor gone")
			}
		}
	}

}

// lookupPairOf: tuple is (entry, present) of a comma-ok lookup in the table field tbl — the
// lookup itself, or a call of a module function every return of which yields either
// (_, false) or results #0/#1 of one such lookup.
func lookupPairOf(w *World, tuple ssa.Value, tbl *types.Var) bool {
	switch t := tuple.(type) {
	case *ssa.Lookup:
		_, f, ok := fieldLoad(w.resolveLoad(t.X))
		return t.CommaOk && ok && f == tbl
	case *ssa.Call:
		h := t.Call.StaticCallee()
		if h == nil || !w.IsMod[h] || len(h.Blocks) == 0 {
			return false
		}
		n := 0
		for _, r := range returnsOf(h) {
			if len(r.Results) != 2 {
				return false
			}
			r0, r1 := w.resolveLoad(r.Results[0]), w.resolveLoad(r.Results[1])
			if c, isC := r1.(*ssa.Const); isC && c.Value != nil && c.Value.String() == "false" {
				continue
			}
			e0, ok0 := r0.(*ssa.Extract)
			e1, ok1 := r1.(*ssa.Extract)
			if !ok0 || !ok1 || e0.Tuple != e1.Tuple || e0.Index != 0 || e1.Index != 1 || !lookupPairOf(w, e0.Tuple, tbl) {
				return false
			}
			n++
		}
		return n > 0
	}
	return false
}

// timerOp: an operation on the lifetimeTimer of a module object, wherever it is spelled out
// (in a start/refresh method, in a helper, or inline): "arm" = the field is assigned
// time.AfterFunc(d, _), "reset" = (*time.Timer).Reset(obj.lifetimeTimer, d).
type timerOp struct {
	kind string
	obj  ssa.Value // the struct pointer whose timer it is (parameters of single-call-site helpers resolved to the argument)
	dur  ssa.Value
	typ  string // name of the struct type
}

func (w *World) timerOpOf(in ssa.Instruction) *timerOp {
	owner := func(base ssa.Value) (ssa.Value, string) {
		b := w.resolveLoad(base)
		t := b.Type()
		if p, ok := t.Underlying().(*types.Pointer); ok {
			t = p.Elem()
		}
		if n, ok := t.(*types.Named); ok {
			return b, nm(n.Obj())
		}
		return b, ""
	}
	switch x := in.(type) {
	case *ssa.Call:
		if cal := x.Call.StaticCallee(); cal != nil && cal.String() == "(*time.Timer).Reset" {
			if b, f, ok := fieldLoad(x.Call.Args[0]); ok && nm(f) == "lifetimeTimer" {
				o, tn := owner(b)
				return &timerOp{"reset", o, w.resolveLoad(x.Call.Args[1]), tn}
			}
		}
	case *ssa.Store:
		fa, ok := x.Addr.(*ssa.FieldAddr)
		if !ok || nm(fieldOf(fa)) != "lifetimeTimer" {
			return nil
		}
		if ac, _ := callOf(w.resolveLoad(x.Val)); ac != nil && ac.Call.StaticCallee() == timeAfterFunc(w) {
			o, tn := owner(fa.X)
			return &timerOp{"arm", o, w.resolveLoad(ac.Call.Args[0]), tn}
		}
	}
	return nil
}

// ---------------------------------------------------------------------------------
// C07.7 — a lifetime timer is restarted only on the entry the table holds now

// ptrOrigins: where a pointer value comes from, followed through parameters (all static call
// sites), results of module functions, phis and captured variables (depth-limited). Leaves:
//
//	table:<T.f>   an element of the collection in field f (lookup, index, range)
//	field:<T.f>   loaded from any other heap field (a remembered pointer)
//	fresh         allocated here
//	pool          taken out of a sync.Pool (exclusively owned until put back)
//	nil           the nil constant
//	api:<fn>      a parameter of a function without module callers
//	other:<…>     anything else
func (w *World) ptrOrigins(v ssa.Value, depth int, seen map[ssa.Value]bool, out map[string]bool) {
	v = stripIface(w.resolveLoad(v))
	if v == nil || seen[v] {
		return
	}
	seen[v] = true
	if depth <= 0 {
		out["other:depth"] = true
		return
	}
	tableOf := func(coll ssa.Value) string {
		coll = stripIface(w.resolveLoad(coll))
		if _, f, ok := fieldLoad(coll); ok {
			return "table:" + fieldOwnerName(w, f) + "." + f.Name()
		}
		return ""
	}
	switch x := v.(type) {
	case *ssa.Const:
		if x.Value == nil {
			out["nil"] = true
			return
		}
	case *ssa.Alloc:
		out["fresh"] = true
		return
	case *ssa.Parameter:
		fn := x.Parent()
		idx := paramIndex(x)
		n := 0
		if node := w.CG.Nodes[fn]; node != nil && !w.fnUsedAsValue()[fn] {
			for _, e := range node.In {
				if e.Site == nil || !w.IsMod[e.Caller.Func] || e.Site.Common().StaticCallee() != fn {
					continue
				}
				if args := e.Site.Common().Args; idx >= 0 && idx < len(args) {
					n++
					w.ptrOrigins(args[idx], depth-1, seen, out)
				}
			}
		}
		if n == 0 {
			out["api:"+fname(fn)] = true
		}
		return
	case *ssa.FreeVar:
		if b := w.binding(x); b != nil {
			w.ptrOrigins(b, depth-1, seen, out)
			return
		}
	case *ssa.Phi:
		for i, e := range x.Edges {
			if deadEdge(x.Block().Preds[i], x.Block()) {
				continue
			}
			w.ptrOrigins(e, depth, seen, out)
		}
		return
	case *ssa.Lookup:
		if t := tableOf(x.X); t != "" {
			out[t] = true
			return
		}
	case *ssa.Extract:
		switch tu := x.Tuple.(type) {
		case *ssa.Lookup:
			if t := tableOf(tu.X); t != "" && x.Index == 0 {
				out[t] = true
				return
			}
		case *ssa.Next:
			if rg, ok := tu.Iter.(*ssa.Range); ok {
				if t := tableOf(rg.X); t != "" {
					out[t] = true
					return
				}
			}
		case *ssa.Call:
			if h := tu.Call.StaticCallee(); h != nil && w.IsMod[h] && len(h.Blocks) > 0 {
				for _, r := range returnsOf(h) {
					if x.Index < len(r.Results) {
						w.ptrOrigins(r.Results[x.Index], depth-1, seen, out)
					}
				}
				return
			}
		}
	case *ssa.Call:
		if h := x.Call.StaticCallee(); h != nil && w.IsMod[h] && len(h.Blocks) > 0 {
			for _, r := range returnsOf(h) {
				if len(r.Results) > 0 {
					w.ptrOrigins(r.Results[0], depth-1, seen, out)
				}
			}
			return
		}
	case *ssa.UnOp:
		if x.Op == token.MUL {
			switch a := x.X.(type) {
			case *ssa.IndexAddr:
				if t := tableOf(a.X); t != "" {
					out[t] = true
					return
				}
				// element of a local snapshot (range over a copy): where the slice came from
				w.ptrOrigins(a.X, depth-1, seen, out)
				return
			case *ssa.FieldAddr:
				f := fieldOf(a)
				out["field:"+fieldOwnerName(w, f)+"."+f.Name()] = true
				return
			case *ssa.Alloc:
				// a local variable (named result, loop-carried found-entry): what is stored in it
				ss := w.stores[w.locKey(a)]
				if len(ss) > 0 && !w.escapes(a) {
					for _, st := range ss {
						w.ptrOrigins(st.Val, depth-1, seen, out)
					}
					return
				}
			}
		}
	case *ssa.Slice:
		w.ptrOrigins(x.X, depth-1, seen, out)
		return
	case *ssa.FieldAddr:
		// an interior pointer: part of the object the base points to
		w.ptrOrigins(x.X, depth, seen, out)
		return
	case *ssa.TypeAssert:
		if pc, _ := callOf(x.X); pc != nil && pc.Call.StaticCallee() != nil && pc.Call.StaticCallee().String() == "(*sync.Pool).Get" {
			out["pool"] = true // taken out of a pool: owned by this invocation until it is put back
			return
		}
	}
	if ex, ok := v.(*ssa.Extract); ok {
		if ta, isTA := ex.Tuple.(*ssa.TypeAssert); isTA && ex.Index == 0 {
			if pc, _ := callOf(ta.X); pc != nil && pc.Call.StaticCallee() != nil && pc.Call.StaticCallee().String() == "(*sync.Pool).Get" {
				out["pool"] = true
				return
			}
		}
	}
	out[fmt.Sprintf("other:%T", v)] = true
}

// ruleTimerOnLiveEntry: restarting the lifetime timer of an entry that is no longer the one
// in the table re-arms a callback that removes BY KEY — it then removes the entry that took
// its place, cutting that one short. So the object of every Reset of a Permission /
// ChannelBind lifetime timer must come (through helpers, all call sites) from the table
// itself: a lookup, an index or a range over Allocation.permissions resp.
// Allocation.channelBindings — never from a pointer remembered in another field.
func ruleTimerOnLiveEntry(c *Ctx, rule string) {
	w := c.W
	c.Rule(rule, "restart on the live entry: the object of every Reset of a Permission / ChannelBind lifetime timer originates — through parameters at all call sites, helper results and phis — from a lookup, index or range of Allocation.permissions resp. Allocation.channelBindings (the entry the table holds now), not from a pointer remembered in another field", 2)
	want := map[string]string{"Permission": "table:Allocation.permissions", "ChannelBind": "table:Allocation.channelBindings"}
	for _, fn := range w.ModFns {
		w.eachInstr(fn, func(in ssa.Instruction) {
			op := w.timerOpOf(in)
			if op == nil || op.kind != "reset" || want[op.typ] == "" {
				return
			}
			c.Anchor(rule, op.typ+" reset")
			org := map[string]bool{}
			w.ptrOrigins(op.obj, 6, map[ssa.Value]bool{}, org)
			var bad []string
			for k := range org {
				if k == want[op.typ] || k == "nil" {
					continue
				}
				bad = append(bad, k)
			}
			sort.Strings(bad)
			if len(bad) == 0 && org[want[op.typ]] {
				c.OK(rule, fname(fn), op.typ+" reset", w.instrPos(in), "the timer restarted belongs to the entry just taken from "+strings.TrimPrefix(want[op.typ], "table:"))
			} else {
				c.Bad(rule, fname(fn), op.typ+" reset", w.instrPos(in), fmt.Sprintf("the %s whose lifetime timer is restarted here can come from %v rather than from the table: a remembered entry may already have expired and been replaced — its re-armed expiry callback then removes the live entry by key, cutting short a %s that was refreshed in time", op.typ, bad, strings.ToLower(op.typ)))
			}
		})
	}
}

// ruleReportWithRemoval (C07.8): the end of a permission / channel binding is one step. The
// deleted-event and the removal from the table happen inside one hold of the table's write
// lock, or the event follows the removal. If the application's handler runs first and without
// the lock, a refresh arriving meanwhile still finds the dying entry, is answered with success,
// and the entry is then removed all the same: the client believes in a binding that is gone
// (and the re-armed timer of the removed entry later removes its successor).
func ruleReportWithRemoval(c *Ctx, rule string) {
	w := c.W
	li := w.lockInfo()
	c.Rule(rule, "expiry is one step: every call of OnPermissionDeleted / OnChannelDeleted is made with the write lock of its table held, or is dominated by the removal of the entry from that table", 2)
	for _, k := range []struct{ name, table, lock string }{
		{"OnPermissionDeleted", "permissions", "allocation.Allocation.permissionsLock"},
		{"OnChannelDeleted", "channelBindings", "allocation.Allocation.channelBindingsLock"},
	} {
		tbl := w.Field("allocation", "Allocation", k.table)
		for _, fn := range w.ModFns {
			w.eachInstr(fn, func(in ssa.Instruction) {
				call, ok := in.(*ssa.Call)
				if !ok || call.Call.StaticCallee() != nil || call.Call.IsInvoke() {
					return
				}
				_, f, isL := fieldLoad(call.Call.Value)
				if !isL || f.Name() != k.name {
					return
				}
				c.Anchor(rule, k.name)
				held := li.mustAt(in)
				isRemoval := func(i2 ssa.Instruction) bool {
					if tableWrite(w, i2, tbl) {
						return true
					}
					if dc, ok := i2.(*ssa.Call); ok {
						if b, isB := dc.Call.Value.(*ssa.Builtin); isB && b.Name() == "delete" {
							_, f2, isL2 := fieldLoad(dc.Call.Args[0])
							return isL2 && f2 == tbl
						}
					}
					return false
				}
				switch {
				case holds(held, k.lock, true):
					c.OK(rule, fname(fn), k.name, w.instrPos(in), "reported inside the hold of "+k.lock+" in which the entry is removed")
				case w.domHit(in, isRemoval) || everyPathPassesBefore(w, fn, in, isRemoval):
					c.OK(rule, fname(fn), k.name, w.instrPos(in), "reported after the entry has been removed from "+k.table)
				default:
					c.Bad(rule, fname(fn), k.name, w.instrPos(in), "the deleted-event is reported before the entry is removed and without "+k.lock+" (held: {"+held.str()+"}): a refresh that arrives while the handler runs finds the dying entry, is answered with success, and the entry is removed all the same")
				}
			})
		}
	}
}

// everyPathPassesBefore: on every feasible path of fn (what the path learns about conditions is
// used: `if found == nil { return }` after a loop that sets found where it removes) that
// reaches instruction at, an instruction accepted by hit was executed before.
func everyPathPassesBefore(w *World, fn *ssa.Function, at ssa.Instruction, hit func(ssa.Instruction) bool) bool {
	if at.Parent() != fn {
		return false
	}
	ok := true
	reached := false
	cfg := &ipCfg[bool]{w: w}
	// helpers that may do the thing are entered: `e := unlink(k); if e == nil { return }`
	// passes the removal exactly on the paths on which the helper returned an element
	may := w.mayContain(hit)
	cfg.Inline = func(_ ssa.CallInstruction, h *ssa.Function) bool {
		return w.IsMod[h] && len(h.Blocks) > 0 && fnPkgPath(h) == fnPkgPath(fn) && may(h)
	}
	cfg.Step = func(in ssa.Instruction, done bool, _ *pathEnv, _ []ssa.CallInstruction) bool {
		if in == at {
			reached = true
			if !done {
				ok = false
			}
		}
		return done || hit(in)
	}
	cfg.Return = func(*ssa.Return, bool, *pathEnv) {}
	explorePaths(cfg, fn, false)
	return ok && reached && !cfg.Exhausted
}
