#!/bin/bash
# round 11 helper: collects patch.diff + zz_demo_test.go from a sub-agent worktree /tmp/wt-r11-<letter> into /tmp/seed11/<id>, re-confirms in a fresh worktree, runs the checker on a scratch copy
# intake.sh <wt-letter> <seed-id>
w=/tmp/wt-r11-$1; id=$2; out=/tmp/seed11/$id; mkdir -p $out
cp $w/patch.diff $out/patch.diff || exit 1
demo=$(cd $w && git status --porcelain | grep -E '^\?\? .*zz_demo_test.go' | awk '{print $2}')
echo "demo=$demo"
cp $w/$demo $out/zz_demo_test.go
# fresh worktree for confirmation
cw=/tmp/confirm-$1; git -C /repo worktree add -q --detach $cw HEAD
bash /verif/tools/confirm_seed.sh $out $cw | tee $out/confirm.txt
git -C /repo worktree remove --force $cw
echo "== turncheck on scratch copy"
bash /verif/tools/scratch.sh $out/patch.diff | tee $out/tc.txt
