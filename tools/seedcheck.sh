#!/bin/bash
# seedcheck.sh <patch.diff> [prop|all]  — apply a seeded change to /repo, run the checks, undo it.
patch=$1; prop=${2:-all}
export GOFLAGS=-mod=mod GOPROXY=off; unset GOWORK
cd /repo || exit 9
[ -n "$(git status --porcelain)" ] && { echo "/repo not clean"; exit 9; }
git apply "$patch" || { echo "patch does not apply"; exit 9; }
mkdir -p /tmp/vtest/evidence; cp /verif/known_findings.json /tmp/vtest/
/verif/bin/turncheck -prop $prop -repo /repo -verif /tmp/vtest 2>&1 | grep -E "^(VIOLATION|  VIOLATED|  UNDECIDED|ANALYSIS|C[0-9]+ )" | cut -c1-400
git checkout -q -- . ; git clean -fdq
