#!/bin/bash
# benign_check.sh <dir-with-*/patch.diff...> — apply each behaviour-preserving patch to /repo, run all checks, undo;
# any report is a false alarm (or the patch is not behaviour-preserving: triage).
export GOFLAGS=-mod=mod GOPROXY=off; unset GOWORK
mkdir -p /tmp/vtest/evidence; cp /verif/known_findings.json /tmp/vtest/
args=(); for p in "$@"; do args+=("$(readlink -f "$p")"); done
for p in "${args[@]}"; do
  cd /repo || exit 9
  [ -n "$(git status --porcelain)" ] && { echo "/repo not clean"; exit 9; }
  if ! git apply "$p" 2>/dev/null; then echo "NOAPPLY $p"; continue; fi
  if ! go build ./... 2>/dev/null; then echo "NOBUILD $p"; git checkout -q -- .; git clean -fdq; continue; fi
  out=$(/verif/bin/turncheck -prop all -repo /repo -verif /tmp/vtest 2>&1 | grep -E "^\s+(VIOLATED|UNDECIDED)|ANALYSIS" | cut -c1-330)
  git checkout -q -- .; git clean -fdq
  if [ -z "$out" ]; then echo "silent  $p"; else echo "ALARM   $p"; echo "$out"; fi
done
