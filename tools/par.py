#!/usr/bin/env python3
"""Parallel regression over scratch copies of /repo (never touches /repo itself):
  par.py seeds  [--write]   every seeded/<id>/patch.diff must be reported by its own property
                            (--write records caught_by/caught_rules in meta.json)
  par.py benign [glob...]   every mutants/benign/*.diff must leave all checks silent
Each job: rsync /repo (without .git) to a temp dir, patch -p1, go build, turncheck -prop all, remove.
Development/maintenance aid; the registered checks always run on /repo itself."""
import json, os, re, subprocess, glob, sys, shutil, tempfile, concurrent.futures as cf
env=dict(os.environ, GOFLAGS="-mod=mod", GOPROXY="off", TURNCHECK_QUIET="1"); env.pop("GOWORK",None)
JOBS=int(os.environ.get("JOBS","8"))
def run(patch):
    tmp=tempfile.mkdtemp(prefix="turnpar-")
    try:
        dst=os.path.join(tmp,"repo")
        subprocess.check_call(["rsync","-a","--exclude",".git","/repo/",dst+"/"])
        r=subprocess.run(["patch","-p1","-s","-f","-i",patch],cwd=dst,capture_output=True,text=True)
        if r.returncode!=0: return patch,"NOAPPLY","",[]
        r=subprocess.run("go build ./...",shell=True,cwd=dst,env=env,capture_output=True,text=True)
        if r.returncode!=0: return patch,"NOBUILD","",[]
        v=os.path.join(tmp,"v"); os.makedirs(os.path.join(v,"evidence")); shutil.copy("/verif/known_findings.json",v)
        r=subprocess.run(["/verif/bin/turncheck","-prop","all","-repo",dst,"-verif",v],env=env,capture_output=True,text=True)
        out=r.stdout+r.stderr
        props=sorted(set(re.findall(r"^VIOLATION property=(C\d+)",out,re.M)))
        rules=sorted(set(re.findall(r"^\s+(?:VIOLATED|UNDECIDED) (\S+)",out,re.M)))
        lines=[l[:260] for l in out.splitlines() if re.match(r"^\s+(VIOLATED|UNDECIDED)|ANALYSIS|panic",l)]
        return patch,"ok" if r.returncode in (0,1) else "ANALYSIS-FAILURE(%d)"%r.returncode,props,rules,lines
    finally:
        shutil.rmtree(tmp,ignore_errors=True)
mode=sys.argv[1]
if mode=="seeds":
    write="--write" in sys.argv
    metas=sorted(glob.glob("/verif/seeded/*/meta.json"))
    patches=[os.path.join(os.path.dirname(m),"patch.diff") for m in metas]
    bad=0
    with cf.ThreadPoolExecutor(JOBS) as ex:
        for m,res in zip(metas,ex.map(run,patches)):
            meta=json.load(open(m))
            if res[1]!="ok":
                print("!!",meta["id"],res[1]); bad+=1; continue
            _,_,props,rules,lines=res
            verdict="own" if meta["property"] in props else "OTHER-ONLY" if props else "MISSED"
            if verdict!="own": bad+=1
            print("  " if verdict=="own" else "!!",meta["id"],verdict," ".join(rules),flush=True)
            if write:
                meta["caught_by"]=props; meta["caught_rules"]=rules; meta["applies_to_head"]=True
                meta["checked_with"]="tools/par.py seeds --write: scratch copy of /repo + patch.diff; bin/turncheck -prop all"
                json.dump(meta,open(m,"w"),indent=1)
    print("seeds: %d, not caught by own property: %d"%(len(metas),bad))
    sys.exit(1 if bad else 0)
else:
    pats=sys.argv[2:] or ["/verif/mutants/benign/*.diff"]
    files=sorted(set(f for p in pats for f in glob.glob(p)))
    limits=json.load(open("/verif/mutants/benign/KNOWN_LIMITS.json"))
    bad=0; known=0; stale=[]
    with cf.ThreadPoolExecutor(JOBS) as ex:
        for f,res in zip(files,ex.map(run,files)):
            name=os.path.basename(f)[:-5]
            if res[1]!="ok":
                print("!!",os.path.basename(f),res[1]); bad+=1; continue
            _,_,props,rules,lines=res
            if props or rules:
                if name in limits:
                    known+=1; print("limit ",os.path.basename(f)," ".join(rules),flush=True)
                else:
                    bad+=1; print("ALARM ",os.path.basename(f),flush=True)
                    for l in lines: print("   ",l)
            else:
                if name in limits: stale.append(name)
                print("silent",os.path.basename(f),flush=True)
    for n in stale: print("STALE-LIMIT",n,"(silent now: remove it from KNOWN_LIMITS.json)")
    print("benign: %d, silent: %d, known limits alarming: %d, unexpected alarms: %d"%(len(files),len(files)-known-bad,known,bad))
    sys.exit(1 if bad or stale else 0)
