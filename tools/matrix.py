#!/usr/bin/env python3
"""Run every seeded change through all checks (apply to /repo, run, undo) and record in
seeded/<id>/meta.json which property checks and rules report it. Development/maintenance aid."""
import json, os, re, subprocess, glob, sys
env=dict(os.environ, GOFLAGS="-mod=mod", GOPROXY="off"); env.pop("GOWORK",None)
os.makedirs("/tmp/vtest/evidence", exist_ok=True)
subprocess.run(["cp","/verif/known_findings.json","/tmp/vtest/"])
rows=[]
for meta_p in sorted(glob.glob("/verif/seeded/*/meta.json")):
    d=os.path.dirname(meta_p); meta=json.load(open(meta_p))
    if subprocess.run(["git","-C","/repo","status","--porcelain"],capture_output=True,text=True).stdout.strip():
        sys.exit("/repo not clean")
    r=subprocess.run(["git","-C","/repo","apply",os.path.join(d,"patch.diff")],capture_output=True,text=True)
    if r.returncode!=0:
        meta["caught_by"]=[]; meta["applies_to_head"]=False
        json.dump(meta,open(meta_p,"w"),indent=1); rows.append((meta["id"],"DOES NOT APPLY")); continue
    try:
        out=subprocess.run(["/verif/bin/turncheck","-prop","all","-repo","/repo","-verif","/tmp/vtest"],capture_output=True,text=True,env=env).stdout
    finally:
        subprocess.run(["git","-C","/repo","checkout","-q","--","."]); subprocess.run(["git","-C","/repo","clean","-fdq"])
    props=sorted(set(re.findall(r"^VIOLATION property=(C\d+)",out,re.M)))
    rules=sorted(set(re.findall(r"^\s+(?:VIOLATED|UNDECIDED) (\S+)",out,re.M)))
    meta["caught_by"]=props; meta["caught_rules"]=rules; meta["applies_to_head"]=True
    meta["checked_with"]="tools/matrix.py: git -C /repo apply patch.diff; bin/turncheck -prop all; git -C /repo checkout -- ."
    json.dump(meta,open(meta_p,"w"),indent=1)
    rows.append((meta["id"],"own" if meta["property"] in props else "OTHER-ONLY" if props else "MISSED"," ".join(rules)))
for r in rows: print(*r)
