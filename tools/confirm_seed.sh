#!/bin/bash
# confirm_seed.sh <outdir> <worktree>  — independently re-confirm a seeded change:
# demo passes without the patch, fails with it; build+vet clean and pinned suite green with it.
# Writes <outdir>/confirm.log and prints one summary line.
out=$1; wt=$2
export GOFLAGS=-mod=mod GOPROXY=off; unset GOWORK
log=$out/confirm.log; : > $log
cd $wt || exit 9
git checkout -q -- . && git clean -fdq
demo0=$(ls $out/*_test.go 2>/dev/null | head -1)
pk=$(grep -m1 -E '^package ' $demo0 | awk '{print $2}')
case "$pk" in
  server|allocation|client|proto|ipnet|auth) dir=internal/$pk ;;
  server_test|allocation_test|client_test|proto_test) dir=internal/${pk%_test} ;;
  e2e|e2e_test) dir=e2e ;;
  turn|turn_test) dir=. ;;
  *) dir=. ;;
esac
demo=$(ls $out/*_test.go 2>/dev/null | head -1)
[ -z "$demo" ] && { echo "NO-DEMO $out"; exit 1; }
cp $demo $wt/$dir/zz_demo_test.go
name=$(grep -oE 'func (Test[A-Za-z0-9_]+)' $demo | awk '{print $2}' | paste -sd'|')
run="go test -count=1 -run ^($name)\$ ./$dir"
echo "== demo without patch: $run" >> $log
$run >> $log 2>&1; a=$?
git apply $out/patch.diff >> $log 2>&1 || { echo "PATCH-FAILS $out"; git checkout -q -- .; git clean -fdq; exit 1; }
echo "== build+vet with patch" >> $log
(go build ./... && go vet ./... ) >> $log 2>&1; b=$?
echo "== demo with patch" >> $log
$run >> $log 2>&1; c=$?
rm -f $wt/$dir/zz_demo_test.go
echo "== suite with patch" >> $log
go test -count=1 ./internal/... ./e2e/... >> $log 2>&1; d=$?
git checkout -q -- . && git clean -fdq
res=CONFIRMED
[ $a -ne 0 ] && res="BAD(demo fails without patch)"
[ $b -ne 0 ] && res="BAD(build/vet)"
[ $c -eq 0 ] && res="BAD(demo passes with patch)"
[ $d -ne 0 ] && res="BAD(suite fails with patch)"
echo "$res $out dir=$dir tests=$name (nopatch=$a build=$b withpatch=$c suite=$d)"
