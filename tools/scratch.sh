#!/bin/bash
# scratch.sh <patch> [turncheck args...] : run turncheck on a scratch copy with patch applied
export GOFLAGS=-mod=mod GOPROXY=off; unset GOWORK
p=$(readlink -f "$1"); shift
d=/tmp/dbg-$$; mkdir -p $d/v/evidence; rsync -a --exclude .git /repo/ $d/repo/; cp /verif/known_findings.json $d/v/
(cd $d/repo && patch -p1 -s -f -i "$p") || { echo NOAPPLY; rm -rf $d; exit 1; }
if [ $# -eq 0 ]; then set -- -prop all; fi
${TC:-/verif/bin/turncheck} "$@" -repo $d/repo -verif $d/v 2>&1 | if [ -n "$RAW" ]; then cat; else grep -E "^\s+(VIOLATED|UNDECIDED)|ANALYSIS|panic|^DBG|^  dbg|^\[" | cut -c1-400; fi
rm -rf $d
