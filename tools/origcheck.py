#!/usr/bin/env python3
"""origcheck.py <dir-with-original-tree>: the checks run on pion/turn as pinned (before the fix:
commits) must report exactly the keys recorded as `fixed` in known_findings.json — no fewer (a
fix entry suppresses nothing, a prover that stops seeing a historical defect is broken) and no
more. Development aid (the original tree is a scratch `git worktree add <dir> a2dd526`)."""
import json, os, re, subprocess, sys, tempfile, shutil
src=sys.argv[1]
env=dict(os.environ, GOFLAGS="-mod=mod", GOPROXY="off", TURNCHECK_QUIET="1"); env.pop("GOWORK",None)
v=tempfile.mkdtemp(prefix="origcheck-"); os.makedirs(v+"/evidence"); shutil.copy("/verif/known_findings.json",v)
out=subprocess.run(["/verif/bin/turncheck","-prop","all","-repo",src,"-verif",v],env=env,capture_output=True,text=True).stdout
shutil.rmtree(v,ignore_errors=True)
got=set(m.group(1) for m in re.finditer(r"^\s+(?:VIOLATED|UNDECIDED) \S+ \[[^\]]*\] (.*?#\d+): ",out,re.M))
want=set(e["key"] for e in json.load(open("/verif/known_findings.json"))["fixed"])
for k in sorted(want-got): print("NOT REPORTED ANY MORE:",k)
for k in sorted(got-want): print("NOT RECORDED:",k)
print("original tree: %d keys reported, %d recorded as fixed"%(len(got),len(want)))
sys.exit(0 if got==want else 1)
