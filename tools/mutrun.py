#!/usr/bin/env python3
"""Apply one textual edit to a scratch copy of /repo and run turncheck on it.
usage: mutrun.py PROP FILE OLD NEW [-- extra turncheck args]   (OLD must occur exactly once)
Development aid only; the catalogue-driven self-validation lives in turncheck itself."""
import sys, os, shutil, subprocess, tempfile
prop, rel, old, new = sys.argv[1:5]
tmp = tempfile.mkdtemp(prefix="turnmut-")
try:
    dst = os.path.join(tmp, "repo")
    subprocess.check_call(["rsync", "-a", "--exclude", ".git", "/repo/", dst + "/"])
    p = os.path.join(dst, rel)
    s = open(p).read()
    if s.count(old) != 1:
        print("OLD occurs", s.count(old), "times"); sys.exit(3)
    open(p, "w").write(s.replace(old, new))
    env = dict(os.environ, GOFLAGS="-mod=mod", GOPROXY="off")
    env.pop("GOWORK", None)
    r = subprocess.run(["go", "build", "./..."], cwd=dst, env=env, capture_output=True, text=True)
    if r.returncode != 0:
        print("MUTANT DOES NOT BUILD\n", r.stderr); sys.exit(4)
    os.makedirs(os.path.join(tmp, "v", "evidence"), exist_ok=True)
    shutil.copy("/verif/known_findings.json", os.path.join(tmp, "v"))
    r = subprocess.run(["/verif/bin/turncheck", "-prop", prop, "-repo", dst, "-verif", os.path.join(tmp, "v")], env=env, capture_output=True, text=True)
    print(r.stdout[-3000:], r.stderr[-2000:])
    print("exit", r.returncode)
finally:
    shutil.rmtree(tmp, ignore_errors=True)
