#!/usr/bin/env python3
"""Validate mutants/catalogue.json: every entry must apply, build and vet; with --tests the pinned
suite is run on it too (a must-fire mutant that fails the suite is not a hidden defect and is
reported; a benign edit must pass). Then the listed property checks are run on the scratch copy.
usage: catalogue_check.py [--tests] [--only substr]"""
import json, os, sys, shutil, subprocess, tempfile, concurrent.futures as cf
tests='--tests' in sys.argv
only=None
if '--only' in sys.argv: only=sys.argv[sys.argv.index('--only')+1]
cat=json.load(open('/verif/mutants/catalogue.json'))
env=dict(os.environ, GOFLAGS='-mod=mod', GOPROXY='off'); env.pop('GOWORK',None)
def run(m):
    tmp=tempfile.mkdtemp(prefix='turncat-')
    try:
        dst=os.path.join(tmp,'repo')
        subprocess.check_call(['rsync','-a','--exclude','.git','/repo/',dst+'/'])
        if m.get('base'):
            r=subprocess.run(['patch','-p1','-s','-f','-i',os.path.join('/verif/mutants',m['base'])],cwd=dst,capture_output=True,text=True)
            if r.returncode!=0: return m['id'],'BASE-NOAPPLY',r.stdout[-200:]
        p=os.path.join(dst,m['file']); s=open(p).read()
        if s.count(m['old'])!=1: return m['id'],'ANCHOR(%d)'%s.count(m['old']),''
        open(p,'w').write(s.replace(m['old'],m['new']))
        r=subprocess.run('go build ./... && go vet ./...',shell=True,cwd=dst,env=env,capture_output=True,text=True)
        if r.returncode!=0: return m['id'],'NOBUILD',r.stderr[-300:]
        suite=''
        if tests:
            r=subprocess.run('go test -count=1 ./internal/... ./e2e/...',shell=True,cwd=dst,env=env,capture_output=True,text=True)
            suite='suite-pass' if r.returncode==0 else 'SUITE-FAIL'
        v=os.path.join(tmp,'v'); os.makedirs(os.path.join(v,'evidence')); shutil.copy('/verif/known_findings.json',v)
        out=[]
        for prop in m['props']:
            r=subprocess.run(['/verif/bin/turncheck','-prop',prop,'-repo',dst,'-verif',v],env=env,capture_output=True,text=True)
            rules=sorted(set(l.split()[1] for l in r.stdout.splitlines() if l.strip().startswith(('VIOLATED','UNDECIDED'))))
            if r.returncode==2: out.append(prop+':ANALYSIS-FAILURE')
            elif m['benign']: out.append(prop+(':silent' if r.returncode==0 else ':FALSE-ALARM['+','.join(rules)+']'))
            else: out.append(prop+(':fired['+','.join(rules)+']' if r.returncode==1 else ':MISSED'))
        return m['id'],suite,' '.join(out)
    finally:
        shutil.rmtree(tmp,ignore_errors=True)
sel=[m for m in cat if not only or only in m['id']]
with cf.ThreadPoolExecutor(8) as ex:
    for id,suite,res in ex.map(run,sel):
        flag='  ' if not any(x in (suite+res) for x in ('MISSED','FALSE-ALARM','NOBUILD','ANCHOR','SUITE-FAIL','ANALYSIS','BASE-NOAPPLY')) else '!!'
        print(flag,id,suite,res,flush=True)
